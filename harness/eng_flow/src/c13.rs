//! C13 — names resolve to the declaration Lua's scoping selects.
//! Space: every program of ≤ n statements (nesting ≤ 2, names {a,b}) of the generator AST in `scope.rs`.
//! Oracle: an independent resolver of manual §3.5, confirmed per program by executing an instrumented
//! rendering in the luars VM (the VM's compiler resolves the names on its own); a verdict needs both.
use crate::scope::*;
use crate::{vm, ws};
use emmylua_code_analysis::{LuaSemanticDeclId, SemanticDeclLevel, SemanticModel};
use emmylua_parser::{LuaAstNode, LuaTokenKind};
use rowan::{NodeOrToken, TextSize};
use serde_json::{Value, json};
use std::cell::RefCell;
use std::collections::HashMap;
use vcore::*;

/// what the real analysis says about one name token
#[derive(Clone, Debug, PartialEq, Eq)]
pub enum Got {
    /// a local declaration (incl. parameters, loop variables) whose name token starts at this offset
    Local(usize),
    /// a global declaration, or no declaration at all
    Global,
    /// something else (member, type, …)
    Other(String),
    /// the token at that offset is not the expected name (machinery problem)
    BadToken(String),
}

pub fn find_decl_at(model: &SemanticModel, offset: usize, name: &str) -> Got {
    let root = model.get_root().syntax().clone();
    let tok = match root.token_at_offset(TextSize::new(offset as u32)) {
        rowan::TokenAtOffset::None => return Got::BadToken("no token".into()),
        rowan::TokenAtOffset::Single(t) => t,
        rowan::TokenAtOffset::Between(_, r) => r,
    };
    if tok.text() != name || usize::from(tok.text_range().start()) != offset || tok.kind() != LuaTokenKind::TkName.into() {
        return Got::BadToken(format!("{:?} {:?}", tok.kind(), tok.text()));
    }
    match model.find_decl(NodeOrToken::Token(tok), SemanticDeclLevel::NoTrace) {
        None => Got::Global,
        Some(LuaSemanticDeclId::LuaDecl(id)) => match model.get_db().get_decl_index().get_decl(&id) {
            Some(d) if d.is_local() || d.is_param() || d.is_implicit_self() => Got::Local(usize::from(d.get_position())),
            Some(_) => Got::Global,
            None => Got::Other("dangling decl id".into()),
        },
        Some(o) => Got::Other(format!("{o:?}").chars().take(40).collect()),
    }
}

fn kind_of_offset(r: &Rendered, off: usize) -> &'static str {
    r.decls.iter().find(|d| d.offset == off).map(|d| d.kind.name()).unwrap_or("non-declaration")
}

#[derive(Clone, Debug)]
pub struct Mismatch {
    pub use_idx: usize,
    pub signature: String,
    pub detail: String,
}

pub struct Checked {
    pub rendered: Rendered,
    pub mismatches: Vec<Mismatch>,
    pub undecided: u64,
    pub decided: u64,
    pub machinery: Option<String>,
}

/// VM reference: use index -> declaration index (+1; negative = global), or an error text
pub fn vm_resolution(r: &Rendered) -> Result<Vec<Option<i64>>, String> {
    let mut seen: Vec<Option<i64>> = vec![None; r.uses.len()];
    if r.if_sites > 6 {
        return Err("too many if sites".into());
    }
    for mask in 0..(1u32 << r.if_sites) {
        let bits: Vec<&str> = (0..r.if_sites).map(|i| if mask >> i & 1 == 1 { "true" } else { "false" }).collect();
        let setup = format!("RESET({})\na, b, self = -1, -2, -3", bits.join(","));
        let (log, end) = vm::run(&setup, &r.vm_text);
        if end != vm::RunEnd::Done {
            return Err(format!("vm run ended {end:?}"));
        }
        for e in log {
            let (k, v) = e.split_once('=').ok_or("bad log entry")?;
            let k: usize = k.parse().map_err(|_| "bad use index")?;
            let v: i64 = v.parse().map_err(|_| format!("use {k} has non-id value {v}"))?;
            match seen.get(k).ok_or("use index out of range")? {
                None => seen[k] = Some(v),
                Some(p) if *p == v => {}
                Some(p) => return Err(format!("use {k} denotes both {p} and {v}")),
            }
        }
    }
    Ok(seen)
}

/// Analyse one program with the real code and compare every name use with the oracle.
pub fn check(prog: &[St], with_vm: bool) -> Checked {
    let r = render(prog);
    let mut out = Checked { rendered: r.clone(), mismatches: vec![], undecided: 0, decided: 0, machinery: None };
    let vmres = if with_vm {
        match vm_resolution(&r) {
            Ok(v) => Some(v),
            Err(e) => {
                out.machinery = Some(format!("vm: {e}"));
                None
            }
        }
    } else {
        None
    };
    let gots: Vec<Got> = ws::with_model(false, &r.text, |_, _, m| r.uses.iter().map(|u| find_decl_at(m, u.offset, NAMES[u.name as usize])).collect());
    for (i, u) in r.uses.iter().enumerate() {
        // oracle agreement
        if let Some(vmres) = &vmres {
            let want: i64 = match u.expect {
                Some(d) => d as i64 + 1,
                None => -(u.name as i64) - 1,
            };
            match vmres[i] {
                Some(v) if v == want => {}
                Some(v) => {
                    out.machinery = Some(format!("resolver and VM disagree on use {i}: resolver {want}, VM {v}"));
                    out.undecided += 1;
                    continue;
                }
                None => {
                    out.undecided += 1; // not executed: no second reference
                    continue;
                }
            }
        }
        // the statement does not speak about the implicit self
        if let Some(d) = u.expect
            && r.decls[d].kind == DeclKind::ImplicitSelf
        {
            out.undecided += 1;
            continue;
        }
        out.decided += 1;
        let exp_kind = match u.expect {
            Some(d) => r.decls[d].kind.name(),
            None => "global",
        };
        let ok = match (&gots[i], u.expect) {
            (Got::Local(off), Some(d)) => *off == r.decls[d].offset,
            (Got::Global, None) => true,
            (Got::BadToken(t), _) => {
                out.machinery = Some(format!("token at {} is {t}", u.offset));
                true
            }
            _ => false,
        };
        if !ok {
            let (got_kind, got_txt) = match &gots[i] {
                Got::Local(off) => {
                    let k = kind_of_offset(&r, *off);
                    (if u.expect.is_some() { format!("other-{k}") } else { k.to_string() }, format!("the {k} at byte {off}"))
                }
                Got::Global => ("global".to_string(), "a global / nothing".to_string()),
                Got::Other(s) => ("other".to_string(), s.clone()),
                Got::BadToken(_) => unreachable!(),
            };
            let role = match u.role {
                Role::Read => "read",
                Role::AssignTarget => "assign-target",
                Role::FuncName => "function-name",
            };
            let exp_txt = match u.expect {
                Some(d) => format!("the {} at byte {}", exp_kind, r.decls[d].offset),
                None => "a global".to_string(),
            };
            out.mismatches.push(Mismatch {
                use_idx: i,
                signature: format!("want-{}:got-{got_kind}", if u.expect.is_some() { "local" } else { "global" }),
                detail: format!("{role} use of `{}` at byte {} must resolve to {exp_txt} (Lua manual §3.5, confirmed by the VM) but find_decl gives {got_txt}", NAMES[u.name as usize], u.offset),
            });
        }
    }
    out
}

fn witness_of(c: &Checked, m: &Mismatch) -> Value {
    let u = &c.rendered.uses[m.use_idx];
    let expect = match u.expect {
        Some(d) => json!(c.rendered.decls[d].offset),
        None => json!("global"),
    };
    json!({"src": c.rendered.text, "_use_at": u.offset, "_name": NAMES[u.name as usize], "_expect_decl_at": expect})
}

fn key(p: &Block) -> (usize, usize, String) {
    let t = render(p).text;
    (block_size(p), t.len(), t)
}

thread_local! {
    /// (program text, signature) -> minimal witness program; shared by all minimisations of a worker
    static MINI: RefCell<HashMap<(String, String), Block>> = RefCell::new(HashMap::new());
}

/// Greedy descent: repeatedly move to the smallest (size, text) one-step simplification that still
/// shows a mismatch with the same signature. Deterministic; every raw case is driven to a fixpoint.
pub fn minimise(prog: &Block, sig: &str) -> Block {
    let mut cur = prog.clone();
    let mut path: Vec<String> = Vec::new();
    let result = loop {
        let text = render(&cur).text;
        if let Some(done) = MINI.with(|m| m.borrow().get(&(text.clone(), sig.to_string())).cloned()) {
            break done;
        }
        path.push(text);
        let mut cands: Vec<((usize, usize, String), Block)> = shrinks(&cur).into_iter().map(|b| (key(&b), b)).collect();
        let kc = key(&cur);
        cands.retain(|(k, _)| *k < kc);
        cands.sort_by(|a, b| a.0.cmp(&b.0));
        cands.dedup_by(|a, b| a.0 == b.0);
        let next = cands.into_iter().find(|(_, b)| check(b, false).mismatches.iter().any(|m| m.signature == sig));
        match next {
            Some((_, b)) => cur = b,
            None => break cur,
        }
    };
    MINI.with(|m| {
        let mut m = m.borrow_mut();
        for t in path {
            m.insert((t, sig.to_string()), result.clone());
        }
    });
    result
}

fn judge(prog: &Block, st: &mut Stats, sample: bool) {
    let c = match catch(|| check(prog, true)) {
        Ok(c) => c,
        Err(p) => {
            ws::reset();
            st.eval(true);
            st.outcome("analysis-panic");
            st.violation(Violation { signature: format!("panic:{}", panic_site(&p)), witness: json!({"src": render(prog).text}), detail: p });
            return;
        }
    };
    st.eval(c.rendered.uses.len() >= 2);
    st.undecided += c.undecided;
    if let Some(m) = &c.machinery {
        st.outcome("oracle-unavailable");
        if st.outcomes.get("oracle-unavailable") == Some(&1) {
            eprintln!("note: {m}\n{}", c.rendered.text);
        }
    }
    for u in &c.rendered.uses {
        st.outcome(match u.expect {
            Some(d) => match c.rendered.decls[d].kind {
                DeclKind::Local => "use->local",
                DeclKind::Param => "use->param",
                DeclKind::ForNum => "use->for-num-var",
                DeclKind::ForIn => "use->for-in-var",
                DeclKind::LocalFn => "use->local-function",
                DeclKind::ImplicitSelf => "use->implicit-self(undecided)",
            },
            None => "use->global",
        });
    }
    if sample {
        st.sample(|| json!({"program": c.rendered.text, "uses": c.rendered.uses.len(), "decls": c.rendered.decls.len(), "mismatches": c.mismatches.len()}));
    }
    if c.mismatches.is_empty() {
        st.outcome("program-ok");
        return;
    }
    st.outcome("program-mismatch");
    let mut sigs: Vec<&str> = c.mismatches.iter().map(|m| m.signature.as_str()).collect();
    sigs.sort();
    sigs.dedup();
    for sig in sigs {
        let min = minimise(prog, sig);
        // re-execute the minimal case with both references; it must fail identically
        let again = check(&min, true);
        match again.mismatches.iter().find(|m| m.signature == sig) {
            Some(m) if again.machinery.is_none() => {
                st.violation(Violation { signature: sig.to_string(), witness: witness_of(&again, m), detail: m.detail.clone() });
            }
            _ => {
                st.outcome("minimal-witness-not-confirmed");
                st.undecided += 1;
            }
        }
    }
}

pub fn replay(w: &Value) -> Option<Violation> {
    let src = w["src"].as_str()?;
    let use_at = w["_use_at"].as_u64()? as usize;
    let name = w["_name"].as_str()?;
    let got = ws::with_model(false, src, |_, _, m| find_decl_at(m, use_at, name));
    let ok = match (&got, &w["_expect_decl_at"]) {
        (Got::Local(o), Value::Number(n)) => Some(*o as u64) == n.as_u64(),
        (Got::Global, Value::String(_)) => true,
        (Got::BadToken(t), _) => die(&format!("replay: token at {use_at} is {t}")),
        _ => false,
    };
    if ok {
        return None;
    }
    Some(Violation {
        signature: "replayed".into(),
        witness: w.clone(),
        detail: format!("use of `{name}` at byte {use_at}: expected declaration {} but find_decl gives {got:?}", w["_expect_decl_at"]),
    })
}

pub fn run(args: &Args) -> ! {
    if let Some(w) = args.replay_witness() {
        let w = if w.get("witness").is_some() { w["witness"].clone() } else { w };
        finish_replay(replay(&w), "C13");
    }
    let dl = args.deadline();
    let mut rep = Report::new("C13", "exploration");
    let mut all = Stats::default();
    // (alphabet, n) sub-spaces, smallest first so the first counterexample is the shortest
    let (n_full, n_core) = args.tier.pick((2, 3), (3, 4));
    let n_full = args.extra_usize("nfull").unwrap_or(n_full);
    let n_core = args.extra_usize("ncore").unwrap_or(n_core);
    let mut plan: Vec<(&str, Alphabet, usize)> = Vec::new();
    for n in 1..=n_full.max(n_core) {
        if n <= n_full {
            plan.push(("full", alphabet_full(), n));
        }
        if n <= n_core && n > n_full {
            plan.push(("core", alphabet_core(), n));
        }
    }
    let mut done = Vec::new();
    let mut exhaustive = true;
    for (label, alpha, n) in plan {
        if dl.expired() {
            exhaustive = false;
            break;
        }
        let sp = Space::new(alpha, 2, n);
        let total = sp.total;
        let (st, ok) = par_range(total, args.threads, &dl, |i, st| {
            let prog = sp.program(i);
            judge(&prog, st, i % (total / 5 + 1) == total / 11);
        });
        all.merge(st);
        done.push(json!({"alphabet": label, "n": n, "programs": total, "completed": ok}));
        if !ok {
            exhaustive = false;
            break;
        }
    }
    rep.rule = format!(
        "every program of exactly k statements for k=1..n, nesting ≤ 2, names {{a,b}}, of the generator AST (local x[,y]=e[,e]; x[,y]=e; local function; function x; local x=function; numeric for; generic for; repeat-until; while; do; if-else; return; function t.f; function t:f) — alphabet '{}' for n≤{n_full}, alphabet '{}' for n≤{n_core}; for every name-use token SemanticModel::find_decl(NoTrace) must designate the declaration token chosen by an independent resolver of Lua manual §3.5 (or a global/no declaration when the resolver says global); a verdict is given only where the luars VM, executing an instrumented rendering, designates the same declaration; uses of the implicit self are undecided; non-trivial = program with ≥ 2 name uses",
        alphabet_full().label,
        alphabet_core().label
    );
    rep.exhaustive = exhaustive;
    rep.bounds = json!({"spaces": done, "nesting": 2, "wall_cap_s": args.wall_cap_s, "wall_cap_hit": dl.was_hit()});
    rep.assumptions = vec![
        "the luars compiler's name resolution is an acceptable second reference for Lua scoping (it agrees with the hand-written §3.5 resolver on every judged use, else the use is undecided)".into(),
        "token lookup by byte offset through rowan is trusted".into(),
        "names beyond {a,b,self}, goto/labels, attribs and nesting > 2 are not covered".into(),
    ];
    rep.finish(args, all)
}
