//! In-process driver of the real emmylua_ls dispatch (hook H4): a `ServerContext` over one end of
//! `lsp_server::Connection::memory()`, a current-thread tokio runtime owned by the worker thread, and
//! a panic hook that records every panic (task panics are swallowed by tokio, the hook still sees them).
use emmylua_ls::verif_api::{ServerContext, on_notification_handler, on_request_handler, on_response_handler};
use lsp_server::{Connection, Message, Notification, Request, RequestId, Response};
use serde_json::{Value, json};
use std::cell::RefCell;
use std::sync::Mutex;
use std::time::{Duration, Instant};

// ---------------------------------------------------------------- panic recording

thread_local! {
    static PANICS: RefCell<Vec<String>> = const { RefCell::new(Vec::new()) };
    static IS_WORKER: RefCell<bool> = const { RefCell::new(false) };
}
/// panics seen on threads that are not engine workers (cannot be attributed to a case)
pub static FOREIGN_PANICS: Mutex<Vec<String>> = Mutex::new(Vec::new());
static HOOK: std::sync::Once = std::sync::Once::new();

pub fn install_panic_hook() {
    HOOK.call_once(|| {
        std::panic::set_hook(Box::new(move |info| {
            let loc = info.location().map(|l| format!("{}:{}", l.file(), l.line())).unwrap_or_default();
            let msg = if let Some(s) = info.payload().downcast_ref::<&str>() {
                s.to_string()
            } else if let Some(s) = info.payload().downcast_ref::<String>() {
                s.clone()
            } else {
                "<non-string panic>".to_string()
            };
            let rec = format!("{msg} @ {loc}");
            if IS_WORKER.try_with(|w| *w.borrow()).unwrap_or(false) && PANICS.try_with(|p| p.borrow_mut().push(rec.clone())).is_ok() {
            } else {
                eprintln!("panic on a non-worker thread: {rec}");
                FOREIGN_PANICS.lock().unwrap().push(rec);
            }
        }));
    });
}

pub fn mark_worker_thread() {
    install_panic_hook();
    IS_WORKER.with(|w| *w.borrow_mut() = true);
}

pub fn take_panics() -> Vec<String> {
    PANICS.with(|p| std::mem::take(&mut *p.borrow_mut()))
}

/// "file" part of a recorded panic, repo-relative or crate-relative, without line number.
pub fn site_of(rec: &str) -> String {
    let loc = rec.rsplit_once(" @ ").map(|x| x.1).unwrap_or(rec);
    let file = loc.rsplit_once(':').map(|x| x.0).unwrap_or(loc);
    if let Some((_, r)) = file.rsplit_once("/crates/") {
        return r.to_string();
    }
    if let Some((_, r)) = file.split_once("/registry/src/") {
        // index.crates.io-xxxx/<crate>-<ver>/src/..  -> <crate>/src/..
        let r = r.split_once('/').map(|x| x.1).unwrap_or(r);
        let (krate, rest) = r.split_once('/').unwrap_or((r, ""));
        let krate = krate.rsplit_once('-').map(|x| x.0).unwrap_or(krate);
        return format!("{krate}/{rest}");
    }
    file.to_string()
}

// ---------------------------------------------------------------- server

pub const DOC_URI: &str = "file:///verif/doc.lua";

pub fn client_capabilities() -> lsp_types::ClientCapabilities {
    // pull diagnostics supported => didOpen/didChange schedule no timer-driven diagnostic task
    serde_json::from_value(json!({
        "textDocument": {
            "diagnostic": {},
            "semanticTokens": {"requests": {"full": true}, "tokenTypes": [], "tokenModifiers": [], "formats": ["relative"]},
            "documentSymbol": {"hierarchicalDocumentSymbolSupport": true},
            "completion": {"completionItem": {"snippetSupport": true}}
        }
    }))
    .expect("client capabilities")
}

#[derive(Default, Debug, Clone)]
pub struct Outcome {
    pub responses: Vec<Response>,
    pub server_requests: Vec<String>,
    pub notifications: Vec<String>,
    pub panics: Vec<String>,
    /// false: tasks were still alive after the wait budget (hang)
    pub quiescent: bool,
    /// a panic escaped the dispatch function itself (not a spawned task)
    pub dispatch_panic: bool,
}

impl Outcome {
    pub fn for_id(&self, id: i32) -> Vec<&Response> {
        let id: RequestId = id.into();
        self.responses.iter().filter(|r| r.id == id).collect()
    }
}

pub struct Srv {
    // field order = drop order: context first, runtime last
    ctx: Option<ServerContext>,
    client: Connection,
    rt: tokio::runtime::Runtime,
    pub next_id: i32,
    pub doc_open: bool,
    pub docs_set: u64,
}

pub const WAIT_BUDGET: Duration = Duration::from_secs(20);

impl Srv {
    pub fn new(with_std: bool) -> Srv {
        mark_worker_thread();
        let rt = tokio::runtime::Builder::new_current_thread().enable_all().build().expect("runtime");
        let (server, client) = Connection::memory();
        let ctx = {
            let _g = rt.enter();
            ServerContext::new(server, client_capabilities())
        };
        let mut s = Srv { ctx: Some(ctx), client, rt, next_id: 1, doc_open: false, docs_set: 0 };
        if with_std {
            s.with_analysis_mut(|a| {
                a.init_std_lib(None);
            });
        }
        s
    }

    pub fn with_analysis_mut<R>(&mut self, f: impl FnOnce(&mut emmylua_code_analysis::EmmyLuaAnalysis) -> R) -> R {
        let snap = self.ctx.as_ref().unwrap().snapshot();
        self.rt.block_on(async {
            let mut a = snap.analysis().write().await;
            f(&mut a)
        })
    }

    pub fn with_analysis<R>(&mut self, f: impl FnOnce(&emmylua_code_analysis::EmmyLuaAnalysis) -> R) -> R {
        let snap = self.ctx.as_ref().unwrap().snapshot();
        self.rt.block_on(async {
            let a = snap.analysis().read().await;
            f(&a)
        })
    }

    /// Feed messages to the real dispatch functions in order, then run the runtime until no spawned
    /// task is alive and the client end is drained. Server->client requests are answered with `null`.
    pub fn drive(&mut self, msgs: Vec<Message>) -> Outcome {
        let _ = take_panics();
        let mut out = Outcome { quiescent: true, ..Default::default() };
        let ctx = self.ctx.as_mut().unwrap();
        let client = &self.client;
        let rt = &self.rt;
        let r = std::panic::catch_unwind(std::panic::AssertUnwindSafe(|| {
            rt.block_on(async {
                for m in msgs {
                    match m {
                        Message::Request(r) => {
                            let _ = on_request_handler(r, ctx).await;
                        }
                        Message::Notification(n) => {
                            let _ = on_notification_handler(n, ctx).await;
                        }
                        Message::Response(r) => {
                            let _ = on_response_handler(r, ctx).await;
                        }
                    }
                }
                let metrics = tokio::runtime::Handle::current().metrics();
                let start = Instant::now();
                let mut spins: u64 = 0;
                loop {
                    while let Ok(m) = client.receiver.try_recv() {
                        match m {
                            Message::Response(r) => out.responses.push(r),
                            Message::Request(r) => {
                                out.server_requests.push(r.method.clone());
                                let _ = on_response_handler(Response::new_ok(r.id, Value::Null), ctx).await;
                            }
                            Message::Notification(n) => out.notifications.push(n.method),
                        }
                    }
                    if metrics.num_alive_tasks() == 0 && client.receiver.is_empty() {
                        break;
                    }
                    spins += 1;
                    if spins % 1024 == 0 {
                        if start.elapsed() > WAIT_BUDGET {
                            out.quiescent = false;
                            break;
                        }
                        // tasks waiting on timers: do not burn the core
                        tokio::time::sleep(Duration::from_millis(1)).await;
                    } else {
                        tokio::task::yield_now().await;
                    }
                }
            })
        }));
        if r.is_err() {
            out.dispatch_panic = true;
        }
        out.panics = take_panics();
        out
    }

    pub fn notify(&mut self, method: &str, params: Value) -> Outcome {
        self.drive(vec![Message::Notification(Notification { method: method.to_string(), params })])
    }

    /// Make `text` the content of the (single) document: didOpen the first time, full-text didChange after.
    pub fn set_doc(&mut self, text: &str) -> Outcome {
        self.docs_set += 1;
        if !self.doc_open {
            self.doc_open = true;
            self.notify(
                "textDocument/didOpen",
                json!({"textDocument": {"uri": DOC_URI, "languageId": "lua", "version": 1, "text": text}}),
            )
        } else {
            self.notify(
                "textDocument/didChange",
                json!({"textDocument": {"uri": DOC_URI, "version": self.docs_set}, "contentChanges": [{"text": text}]}),
            )
        }
    }

    pub fn fresh_id(&mut self) -> i32 {
        let id = self.next_id;
        self.next_id += 1;
        id
    }

    /// one request through the real dispatch; returns (id, outcome)
    pub fn request(&mut self, method: &str, params: Value) -> (i32, Outcome) {
        let id = self.fresh_id();
        let o = self.drive(vec![Message::Request(Request { id: id.into(), method: method.to_string(), params })]);
        (id, o)
    }
}

impl Drop for Srv {
    fn drop(&mut self) {
        // drop the context inside the runtime (its members may own tokio resources)
        let ctx = self.ctx.take();
        let _g = self.rt.enter();
        drop(ctx);
    }
}

/// Parse one wire-format JSON-RPC message the way `lsp_server::Message::read` does.
pub fn wire(text: &str) -> Option<Message> {
    serde_json::from_str::<Message>(text).ok()
}

/// classification of the answers one request id got
#[derive(Debug, Clone, PartialEq, Eq)]
pub enum Answer {
    None,
    Result(Value),
    Error(i32, String),
    /// neither or both of result/error in one response
    Malformed(String),
    Multiple(usize),
}

pub fn answer(o: &Outcome, id: i32) -> Answer {
    let rs = o.for_id(id);
    match rs.len() {
        0 => Answer::None,
        1 => {
            let r = rs[0];
            match (&r.result, &r.error) {
                (Some(v), None) => Answer::Result(v.clone()),
                (None, Some(e)) => Answer::Error(e.code, e.message.clone()),
                (None, None) => Answer::Malformed("neither result nor error".into()),
                (Some(_), Some(_)) => Answer::Malformed("both result and error".into()),
            }
        }
        n => Answer::Multiple(n),
    }
}
