//! Shared by C25/C26: per-worker-thread servers, the request builders for the position- and
//! range-taking methods, document sources.
use crate::docs::*;
use crate::srv::*;
use serde_json::{Value, json};
use std::sync::Mutex;

/// Servers are kept in a process-wide pool (not in thread-locals: a ServerContext must not be
/// dropped from a thread-local destructor, tokio's own thread-locals may be gone by then). A worker
/// takes one out, uses it exclusively, and puts it back.
static POOL: Mutex<[Vec<Srv>; 2]> = Mutex::new([Vec::new(), Vec::new()]);

/// documents served by one ServerContext before it is replaced (bounds what earlier documents can leave behind)
pub const RECYCLE: u64 = 256;

/// Run `f` with a pooled long-lived server (with or without the std library loaded).
pub fn with_srv<R>(std: bool, f: impl FnOnce(&mut Srv) -> R) -> R {
    mark_worker_thread();
    let mut slot = POOL.lock().unwrap()[std as usize].pop();
    if slot.as_ref().is_some_and(|s| s.docs_set >= RECYCLE) {
        slot = None;
    }
    let mut s = slot.unwrap_or_else(|| Srv::new(std));
    let r = f(&mut s);
    POOL.lock().unwrap()[std as usize].push(s);
    r
}

fn p(x: Pos) -> Value {
    json!({"line": x.0, "character": x.1})
}
fn r(s: Pos, e: Pos) -> Value {
    json!({"start": p(s), "end": p(e)})
}
fn td() -> Value {
    json!({"uri": DOC_URI})
}
fn fmt_opts() -> Value {
    json!({"tabSize": 4, "insertSpaces": true})
}

/// the 13 requests that take one position (inlineValue: stoppedLocation = the position)
pub const POSITION_METHODS: &[&str] = &[
    "textDocument/hover",
    "textDocument/definition",
    "textDocument/implementation",
    "textDocument/references",
    "textDocument/rename",
    "textDocument/prepareRename",
    "textDocument/completion",
    "textDocument/signatureHelp",
    "textDocument/documentHighlight",
    "textDocument/selectionRange",
    "textDocument/inlineValue",
    "textDocument/prepareCallHierarchy",
    "textDocument/onTypeFormatting",
];
/// the 5 requests that take a range (inlineValue: range and stoppedLocation = the range)
pub const RANGE_METHODS: &[&str] =
    &["textDocument/codeAction", "textDocument/rangeFormatting", "textDocument/inlayHint", "textDocument/inlineValue", "textDocument/colorPresentation"];
pub const DOC_METHODS: &[&str] = &["textDocument/semanticTokens/full"];

pub fn position_params(method: &str, at: Pos) -> Value {
    match method {
        "textDocument/references" => json!({"textDocument": td(), "position": p(at), "context": {"includeDeclaration": true}}),
        "textDocument/rename" => json!({"textDocument": td(), "position": p(at), "newName": "zz"}),
        "textDocument/selectionRange" => json!({"textDocument": td(), "positions": [p(at)]}),
        "textDocument/inlineValue" => json!({"textDocument": td(), "range": r(at, at), "context": {"frameId": 0, "stoppedLocation": r(at, at)}}),
        "textDocument/onTypeFormatting" => json!({"textDocument": td(), "position": p(at), "ch": "\n", "options": fmt_opts()}),
        _ => json!({"textDocument": td(), "position": p(at)}),
    }
}

pub fn range_params(method: &str, s: Pos, e: Pos) -> Value {
    match method {
        "textDocument/codeAction" => json!({"textDocument": td(), "range": r(s, e), "context": {"diagnostics": []}}),
        "textDocument/rangeFormatting" => json!({"textDocument": td(), "range": r(s, e), "options": fmt_opts()}),
        "textDocument/inlineValue" => json!({"textDocument": td(), "range": r(s, e), "context": {"frameId": 0, "stoppedLocation": r(s, e)}}),
        "textDocument/colorPresentation" => json!({"textDocument": td(), "range": r(s, e), "color": {"red": 1.0, "green": 0.5, "blue": 0.0, "alpha": 1.0}}),
        _ => json!({"textDocument": td(), "range": r(s, e)}),
    }
}

pub fn doc_params(_method: &str) -> Value {
    json!({"textDocument": td()})
}

/// a request target of the C25 space
#[derive(Clone, Debug, PartialEq)]
pub enum Target {
    Doc,
    At(Pos),
    Range(Pos, Pos),
}

impl Target {
    pub fn to_json(&self) -> Value {
        match self {
            Target::Doc => Value::Null,
            Target::At(a) => json!({"line": a.0, "character": a.1}),
            Target::Range(s, e) => json!({"start": [s.0, s.1], "end": [e.0, e.1]}),
        }
    }
    pub fn from_json(v: &Value) -> Option<Target> {
        if v.is_null() {
            return Some(Target::Doc);
        }
        let pair = |x: &Value| Some((x[0].as_u64()? as u32, x[1].as_u64()? as u32));
        if v.get("start").is_some() {
            return Some(Target::Range(pair(&v["start"])?, pair(&v["end"])?));
        }
        Some(Target::At((v["line"].as_u64()? as u32, v["character"].as_u64()? as u32)))
    }
    pub fn params(&self, method: &str) -> Value {
        match self {
            Target::Doc => doc_params(method),
            Target::At(a) => position_params(method, *a),
            Target::Range(s, e) => range_params(method, *s, *e),
        }
    }
}

/// all targets of `method` for a document, in canonical order
pub fn targets(method: &str, positions: &[Pos], range_positions: &[Pos], as_range: bool) -> Vec<Target> {
    if DOC_METHODS.contains(&method) {
        return vec![Target::Doc];
    }
    if as_range {
        let mut v = Vec::new();
        for s in range_positions {
            for e in range_positions {
                v.push(Target::Range(*s, *e));
            }
        }
        v
    } else {
        positions.iter().map(|a| Target::At(*a)).collect()
    }
}

/// (method, is-range-form) pairs of the C25 request set: 13 + 5 + 1
pub fn request_forms() -> Vec<(&'static str, bool)> {
    let mut v: Vec<(&'static str, bool)> = POSITION_METHODS.iter().map(|m| (*m, false)).collect();
    v.extend(RANGE_METHODS.iter().map(|m| (*m, true)));
    v.extend(DOC_METHODS.iter().map(|m| (*m, false)));
    v
}


/// Document minimisation on the engine's own vocabulary: delete characters (ddmin chunks, then
/// single characters), then replace every remaining character by the simplest of '\n', ' ', 'a', 'é', '中', '😀' (one per UTF-8 length)
/// that keeps the failure, and repeat — so that one root cause converges to one text.
pub fn minimise_doc(text: &str, pred: &dyn Fn(&str) -> bool) -> String {
    let mut cur = vcore::minimise_text(text, |t| pred(t));
    loop {
        let mut changed = false;
        let n = cur.chars().count();
        for i in 0..n {
            for c in ['\n', ' ', 'a', 'é', '中', '😀'] {
                let mut cs: Vec<char> = cur.chars().collect();
                if cs[i] == c {
                    break;
                }
                cs[i] = c;
                let cand: String = cs.into_iter().collect();
                if pred(&cand) {
                    cur = cand;
                    changed = true;
                    break;
                }
            }
        }
        if !changed {
            return cur;
        }
        cur = vcore::minimise_text(&cur, |t| pred(t));
    }
}

thread_local! {
    static PRED_CACHE: std::cell::RefCell<std::collections::HashMap<String, bool>> = std::cell::RefCell::new(std::collections::HashMap::new());
}

/// memoised predicate evaluation (minimisations of different raw cases meet on the same small texts)
pub fn cached(key: String, f: impl FnOnce() -> bool) -> bool {
    if let Some(v) = PRED_CACHE.with(|c| c.borrow().get(&key).copied()) {
        return v;
    }
    let v = f();
    PRED_CACHE.with(|c| {
        let mut c = c.borrow_mut();
        if c.len() > 2_000_000 {
            c.clear();
        }
        c.insert(key, v);
    });
    v
}
