//! Documents, positions and the reference text model shared by C25/C26.
use emmylua_parser::{LuaLanguageLevel, LuaParser, ParserConfig};
use rowan::NodeOrToken;

/// Σ₁ — copied from eng_parser/src/common.rs (one fragment per lexer/parser shortcut)
pub const SIGMA1: &[&str] = &[
    "a", "local ", "function ", "end ", "if ", "then ", "else ", "for ", "in ", "do ", "while ", "repeat ", "until ",
    "return ", "goto ", "global ", "not ", "nil",
    "=", "==", "~=", "<", ">", "+", "-", "..", "...", ".", ":", "::", ",", ";", "(", ")", "{", "}", "[", "]", "#", "//", "/*", "*/",
    "?", "|", "@", "!", "`", "$",
    "1", "0x", "1e", "\"", "'", "[[", "]]", "[=[", "\\",
    "--", "---@", "---|", "--[[", "--region", "--endregion", "---@class ", "---@type ", "---@param ", "#!",
    "\n", "\r", " ", "\t", "\0", "\u{feff}", "é", "中", "😀",
];

pub const SIGMA1_CORE: &[&str] = &[
    "a", "local ", "function ", "end ", "=", "(", ")", "{", "}", ",", ";", "\"", "[[", "--", "---@", "--region", "\n", " ", "\0", "é",
];

/// Σ₂ — copied from eng_parser/src/common.rs (statement- and annotation-sized fragments)
pub const SIGMA2: &[&str] = &[
    "local t = {", "function f(", "local function f(a, b)\n", "return function()\n", "if a then\n", "elseif b then\n", "else\n",
    "end\n", "for i = 1, 2 do\n", "for k, v in pairs(t) do\n", "while a do\n", "repeat\n", "until a\n", "::l::\n", "goto l\n",
    "a.b:c(1)[2] = 3\n", "x = 1 + 2 * -3 ^ 4 .. 's'\n", "}\n", ")\n", "[1] = 2,", "x = y;", "f{...}\n", "f'x'\n",
    "---@class A : B\n", "---@field x integer?\n", "---@param x fun(a: string): T[]\n", "---@alias X\n", "---| 'a' # d\n",
    "---@type table<string, {x: 1, y?: A}>\n", "---@generic T : A\n", "---@return T ... desc\n", "---@overload fun(...): A | B\n",
    "---```lua\n", "---```\n", "--- text *x* `y`\n", "---@cast a +?\n", "---@diagnostic disable-next-line: x\n", "---@enum (key) E\n",
    "---@operator add(A): B\n", "--[[ c ]] ", "--region r\n", "--endregion\n", "local x <const> = 1\n", "\0", "\r\n",
];


/// Σ₃ — handler shortcuts: one fragment per node-level special case of the request handlers (semantic-token
/// builder arms, signature-help receiver handling, rename/reference declaration kinds, language injection,
/// description rendering). Every Σ₃ document starts with PRELUDE3, the declarations the fragments use.
pub const PRELUDE3: &str = "local t = { a = { b = { c = 1 } } }\nfunction t.reset() end\nfunction t.set(x, y) end\nfunction t:m(x) end\n";
pub const SIGMA3: &[&str] = &[
    "t:reset()\n", "t.reset()\n", "t:set(1)\n", "t.set(1, 2)\n", "t:m(1)\n", "t.m(t, 1)\n", "t.a.b.c = 2\n",
    "---@cast t.a.b.c integer\n", "---@cast t integer\n", "local s = t.a --[[@as string]]\n", "local m = require('m')\nm.f()\n",
    "---@language lua\nlocal q = [[x = 1]]\n", "string.format('%d %s', 1, 'x')\n", "---@[deprecated]\n",
    "---@alias X<T> T extends infer U and U or nil\n", "---@namespace N\n", "---@using N\n",
    "---@generic T, U : A\n---@param f fun(x: T): U\nlocal function g(f) end\n", "---@type { a: 1, [string]: 2 }\nlocal o\n",
    "for i = 1, 2 do t.set(i) end\n", "for k, v in pairs(t) do t.m(k, v) end\n", "local c <const>, d <close> = 1, nil\n",
    "t.tab = { a = 1, ['b'] = 2, [3] = 3, f = function(self) end }\n", "--- desc `code` *em* [link](x) @param\nlocal z\n",
    "---```lua\n--- local x = 1\n---```\n", "---@param x integer desc\n---@return integer r desc\nfunction t.p(x) return x end\n",
    "---@class C<T>: P\n---@field f integer desc\n---@field [integer] string\nlocal C = {}\n", "---@enum E\nlocal E = { A = 1 }\n",
    "---@alias A\n---| 'a' # one\n---| 'b'\n", "---@diagnostic disable: unused\n", "---@overload fun(a: integer): string\n",
    "---@operator call(integer): string\n", "---@see C#f\n", "---@version >5.1\n", "---@source a.lua:1\n", "---@module 'm'\n",
    "---@async\n---@nodiscard\n---@deprecated use x\n", "---@readonly\n", "goto l\n::l::\n", "t.x = t.a and t.a.b or not t\n",
    "t.set(\n", "t:m(", "t:reset(", "return t\n",
];

/// text of a word of the named phase (Σ₃ words are prefixed with their declaration context)
pub fn phase_text(name: &str, sigma: &[&str], w: &[usize]) -> String {
    let body = word_text(sigma, w);
    if name.starts_with("Σ3") { format!("{PRELUDE3}{body}") } else { body }
}

pub fn word_text(sigma: &[&str], w: &[usize]) -> String {
    let mut s = String::new();
    for &i in w {
        s.push_str(sigma[i]);
    }
    s
}

/// paragraphs (blank-line separated blocks) of the bundled std library, at most `max_len` bytes,
/// sorted and deduplicated — the "std excerpts"
pub fn std_excerpts(max_len: usize) -> Vec<String> {
    let root = vcore::repo_root().join("crates/emmylua_code_analysis/resources/std");
    let mut files = Vec::new();
    fn walk(p: &std::path::Path, out: &mut Vec<String>) {
        let Ok(rd) = std::fs::read_dir(p) else { return };
        let mut es: Vec<_> = rd.flatten().map(|e| e.path()).collect();
        es.sort();
        for e in es {
            if e.is_dir() {
                walk(&e, out);
            } else if e.extension().is_some_and(|x| x == "lua") {
                if let Ok(t) = std::fs::read_to_string(&e) {
                    out.push(t);
                }
            }
        }
    }
    walk(&root, &mut files);
    let mut out = Vec::new();
    for t in files {
        let mut cur = String::new();
        for line in t.split_inclusive('\n') {
            cur.push_str(line);
            if line.trim().is_empty() && cur.trim().len() > 0 {
                out.push(std::mem::take(&mut cur));
            }
        }
        if !cur.trim().is_empty() {
            out.push(cur);
        }
    }
    out.retain(|p| p.len() <= max_len);
    out.sort();
    out.dedup();
    out
}

/// token boundaries (byte offsets, start of every token and end of text) under the default parser configuration
pub fn token_starts(text: &str) -> Vec<usize> {
    let tree = LuaParser::parse(text, ParserConfig::with_level(LuaLanguageLevel::Lua54));
    let mut v = Vec::new();
    for el in tree.get_red_root().descendants_with_tokens() {
        if let NodeOrToken::Token(t) = el {
            v.push(u32::from(t.text_range().start()) as usize);
        }
    }
    v.push(text.len());
    v.sort();
    v.dedup();
    v
}

// ---------------------------------------------------------------- reference text model

/// Independent model of a document's coordinates. Lines end at "\n", "\r\n" or a lone "\r" (the
/// protocol's line model); `lens[i]` = (chars, utf16 units, bytes) of line i without its '\n'.
pub struct TextModel {
    pub starts: Vec<usize>,
    pub lens: Vec<(u32, u32, u32)>,
}

pub type Pos = (u32, u32);

impl TextModel {
    pub fn new(text: &str) -> TextModel {
        // LSP line model: a line ends at "\n", "\r\n" or a lone "\r"
        let b = text.as_bytes();
        let mut starts = vec![0usize];
        let mut ends = Vec::new();
        let mut i = 0;
        while i < b.len() {
            if b[i] == b'\n' {
                ends.push(i);
                starts.push(i + 1);
            } else if b[i] == b'\r' {
                ends.push(i);
                if i + 1 < b.len() && b[i + 1] == b'\n' {
                    i += 1;
                }
                starts.push(i + 1);
            }
            i += 1;
        }
        ends.push(text.len());
        let mut lens = Vec::new();
        for (i, &s) in starts.iter().enumerate() {
            let l = &text[s..ends[i]];
            // the byte bound includes the line's own terminator: an offset between the "\r" and
            // the "\n" of a CRLF is a token boundary for the Lua lexer (which pairs "\n\r") and
            // still addresses a byte of this line; the protocol clamps such a character to the
            // line length
            let term = if i + 1 < starts.len() { starts[i + 1] - ends[i] } else { 0 };
            lens.push((l.chars().count() as u32, l.encode_utf16().count() as u32, (l.len() + term.saturating_sub(1)) as u32));
        }
        TextModel { starts, lens }
    }
    pub fn line_count(&self) -> u32 {
        self.starts.len() as u32
    }
    /// (line, character) of a byte offset on a char boundary, character counted in chars
    pub fn pos_of(&self, text: &str, off: usize) -> Pos {
        let line = match self.starts.binary_search(&off) {
            Ok(i) => i,
            Err(i) => i - 1,
        };
        let mut o = off;
        while !text.is_char_boundary(o) {
            o -= 1;
        }
        (line as u32, text[self.starts[line]..o].encode_utf16().count() as u32)
    }
    /// Is the position inside the document? Weakest reading the statement allows: the line exists
    /// and the character does not exceed the line's length under ANY of the three LSP encodings
    /// (bytes ≥ utf16 ≥ chars), so the C23 encoding question is not re-judged here.
    pub fn contains(&self, p: Pos) -> bool {
        (p.0 as usize) < self.lens.len() && p.1 <= self.lens[p.0 as usize].2
    }
}

/// The C25 position set of a document: every token boundary; every line with character ∈
/// {0, len, len+1, 10^6}; lines {count, count+1, 2^31} with character ∈ {0, 1}. Sorted, deduplicated.
pub fn position_set(text: &str, tm: &TextModel) -> Vec<Pos> {
    let mut v: Vec<Pos> = Vec::new();
    for off in token_starts(text) {
        v.push(tm.pos_of(text, off));
    }
    for (i, l) in tm.lens.iter().enumerate() {
        for c in [0, l.0, l.0 + 1, 1_000_000] {
            v.push((i as u32, c));
        }
    }
    let n = tm.line_count();
    for l in [n, n + 1, 1u32 << 31] {
        v.push((l, 0));
        v.push((l, 1));
    }
    v.sort();
    v.dedup();
    v
}

/// reduced position set for ranges: first, middle and last token boundary, past the end of the last
/// line, first line after the document, line 2^31
pub fn range_position_set(text: &str, tm: &TextModel) -> Vec<Pos> {
    let ts = token_starts(text);
    let mut v = vec![tm.pos_of(text, ts[0]), tm.pos_of(text, ts[ts.len() / 2]), tm.pos_of(text, ts[ts.len() - 1])];
    let last = tm.lens.len() - 1;
    v.push((last as u32, tm.lens[last].0 + 1));
    v.push((tm.line_count(), 0));
    v.push((1u32 << 31, 0));
    let mut out: Vec<Pos> = Vec::new();
    for p in v {
        if !out.contains(&p) {
            out.push(p);
        }
    }
    out
}
