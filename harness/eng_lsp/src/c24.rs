//! C24 part (a) — every client request gets exactly one response (in-process input enumeration).
//!
//! Alphabet: for every method registered in `on_request_handler` (38) × param shape ∈ {valid,
//! valid with the position beyond the end of the document, every key path of the valid params
//! removed, every key path replaced by a value of another JSON type, params = null / absent /
//! string / number / bool / array} + an unknown method + a `$/`-prefixed unknown method.
//! Space: all sequences of ≤ 2 letters followed by a valid hover probe, each in two feeding modes
//! (burst: all messages dispatched, then the runtime runs to quiescence; step: quiescence after
//! every message). Every message is built as wire JSON text and parsed by lsp_server's own `Message`
//! deserialiser. A fresh `ServerContext` per sequence.
//! Oracle: at quiescence each request id has exactly one `Response` carrying result xor error; the
//! probe is answered with a result.
use crate::methods::*;
use crate::srv::*;
use lsp_server::Message;
use serde_json::{Value, json};
use std::collections::BTreeMap;
use vcore::*;

pub const DOC: &str = "local a = 1\nprint(a)\n";
const POS: (u32, u32) = (0, 6);
/// a position whose line exists but whose character is far beyond the end of the document
const POS_EOF: (u32, u32) = (1, 1_000_000);

#[derive(Clone, Debug, PartialEq, Eq)]
pub struct Letter {
    pub method: String,
    pub shape: String,
    /// None = the "params" key is absent from the message
    pub params: Option<Value>,
    /// index into methods() (None for the unknown methods)
    pub mi: Option<usize>,
}

impl Letter {
    pub fn to_json(&self) -> Value {
        json!({"method": self.method, "shape": self.shape})
    }
    pub fn wire(&self, id: i32) -> String {
        let mut m = serde_json::Map::new();
        m.insert("jsonrpc".into(), json!("2.0"));
        m.insert("id".into(), json!(id));
        m.insert("method".into(), json!(self.method));
        if let Some(p) = &self.params {
            m.insert("params".into(), p.clone());
        }
        serde_json::to_string(&Value::Object(m)).unwrap()
    }
    /// the params value as lsp_server hands it to the dispatch (absent ≡ null)
    pub fn effective_params(&self) -> Value {
        self.params.clone().unwrap_or(Value::Null)
    }
}

pub fn alphabet(ms: &[Method]) -> Vec<Letter> {
    let mut out = Vec::new();
    for (mi, m) in ms.iter().enumerate() {
        let mut push = |shape: String, params: Option<Value>| {
            out.push(Letter { method: m.name.to_string(), shape, params, mi: Some(mi) });
        };
        let valid = (m.valid)(DOC_URI, POS.0, POS.1);
        push("valid".into(), Some(valid.clone()));
        push("params:null".into(), Some(Value::Null));
        push("params:absent".into(), None);
        push("params:string".into(), Some(json!("x")));
        push("params:number".into(), Some(json!(7)));
        push("params:bool".into(), Some(json!(true)));
        push("params:array".into(), Some(json!([])));
        if m.positional {
            push("valid-eof".into(), Some((m.valid)(DOC_URI, POS_EOF.0, POS_EOF.1)));
        }
        for p in key_paths(&valid) {
            let mut v = valid.clone();
            remove_path(&mut v, &p);
            push(format!("missing:{}", p.join(".")), Some(v));
        }
        for p in key_paths(&valid) {
            let mut v = valid.clone();
            let mut cur = &valid;
            for k in &p {
                cur = &cur[k];
            }
            set_path(&mut v, &p, other_type(cur));
            push(format!("wrongtype:{}", p.join(".")), Some(v));
        }
    }
    for name in ["verif/unknownMethod", "$/verifUnknown"] {
        out.push(Letter { method: name.into(), shape: "valid".into(), params: Some(json!({})), mi: None });
        out.push(Letter { method: name.into(), shape: "params:absent".into(), params: None, mi: None });
    }
    out
}

fn probe() -> Letter {
    Letter {
        method: "textDocument/hover".into(),
        shape: "probe".into(),
        params: Some(json!({"textDocument": {"uri": DOC_URI}, "position": {"line": POS.0, "character": POS.1}})),
        mi: Some(0),
    }
}

#[derive(Clone, Copy, PartialEq, Eq, Debug)]
pub enum Mode {
    Burst,
    Step,
}
impl Mode {
    fn name(self) -> &'static str {
        match self {
            Mode::Burst => "burst",
            Mode::Step => "step",
        }
    }
}

/// per request of the sequence (probe last): None = exactly one well-formed response
pub struct SeqResult {
    pub fails: Vec<Option<String>>,
    pub classes: Vec<String>,
}

fn merge(a: &mut Outcome, b: Outcome) {
    a.responses.extend(b.responses);
    a.server_requests.extend(b.server_requests);
    a.notifications.extend(b.notifications);
    a.panics.extend(b.panics);
    a.quiescent &= b.quiescent;
    a.dispatch_panic |= b.dispatch_panic;
}

pub fn run_seq(ms: &[Method], letters: &[&Letter], mode: Mode) -> SeqResult {
    let mut s = Srv::new(false);
    s.set_doc(DOC);
    let p = probe();
    let mut all: Vec<&Letter> = letters.to_vec();
    all.push(&p);
    let mut msgs = Vec::new();
    for (i, l) in all.iter().enumerate() {
        let w = l.wire(i as i32 + 1);
        match wire(&w) {
            Some(m @ Message::Request(_)) => msgs.push(m),
            _ => die(&format!("harness built a message that lsp_server does not read as a request: {w}")),
        }
    }
    let out = match mode {
        Mode::Burst => s.drive(msgs),
        Mode::Step => {
            let mut acc = Outcome { quiescent: true, ..Default::default() };
            for m in msgs {
                let o = s.drive(vec![m]);
                merge(&mut acc, o);
            }
            acc
        }
    };
    let mut fails = Vec::new();
    let mut classes = Vec::new();
    for (i, l) in all.iter().enumerate() {
        let is_probe = i + 1 == all.len();
        let accepted = match l.mi {
            Some(mi) => (ms[mi].accepts)(&l.effective_params()),
            None => true,
        };
        let a = answer(&out, i as i32 + 1);
        let (fail, class) = match a {
            Answer::Result(_) if is_probe => (None, "probe:result".to_string()),
            Answer::Result(v) => (None, format!("{}:result{}", if accepted { "accepted" } else { "rejected" }, if v.is_null() { "-null" } else { "" })),
            Answer::Error(code, _) if is_probe => (Some(format!("probe-error:{code}")), "probe:error".to_string()),
            Answer::Error(code, _) => (None, format!("{}:error{code}", if l.mi.is_none() { "unknown-method" } else if accepted { "accepted" } else { "rejected" })),
            Answer::Malformed(w) => (Some(format!("malformed-response:{}:{w}", l.method)), "malformed".into()),
            Answer::Multiple(n) => (Some(format!("multiple-responses:{}", l.method)), format!("multiple:{n}")),
            Answer::None => {
                let why = if out.dispatch_panic {
                    format!("dispatch-panic:{}", out.panics.first().map(|p| site_of(p)).unwrap_or_default())
                } else if !accepted {
                    "params-rejected".to_string()
                } else if !out.panics.is_empty() {
                    format!("task-panic:{}", site_of(&out.panics[0]))
                } else if !out.quiescent {
                    format!("hang:{}", l.method)
                } else {
                    l.method.clone()
                };
                let pre = if is_probe { "probe-unanswered" } else { "no-response" };
                (Some(format!("{pre}:{why}")), format!("{pre}:{}", why.split(':').next().unwrap_or("")))
            }
        };
        fails.push(fail);
        classes.push(class);
    }
    SeqResult { fails, classes }
}

fn kind(sig: &str) -> &str {
    sig.split(':').next().unwrap_or(sig)
}

fn witness(letters: &[&Letter], mode: Mode) -> Value {
    json!({"requests": letters.iter().map(|l| l.to_json()).collect::<Vec<_>>(), "mode": mode.name()})
}

/// single-letter verdicts (burst and step are the same thing for one request + probe: burst is used)
pub fn single_sigs(ms: &[Method], alpha: &[Letter], threads: usize, dl: &Deadline, probe_alone: &Option<String>) -> (Vec<Option<String>>, Stats, bool) {
    let sigs = std::sync::Mutex::new(vec![None; alpha.len()]);
    let (st, ok) = par_range(alpha.len() as u64 * 2, threads, dl, |i, st| {
        let li = (i / 2) as usize;
        let mode = if i % 2 == 0 { Mode::Burst } else { Mode::Step };
        let l = &alpha[li];
        let r = run_seq(ms, &[l], mode);
        st.eval(true);
        st.outcome(&format!("{}|{}", r.classes[0], r.classes[1]));
        if li % 97 == 3 && mode == Mode::Burst {
            st.sample(|| json!({"sequence": [l.to_json()], "wire": l.wire(1), "classes": r.classes}));
        }
        if mode == Mode::Burst {
            if let Some(s) = &r.fails[0] {
                sigs.lock().unwrap()[li] = Some(s.clone());
            }
        } else if r.fails[0].is_some() && sigs.lock().unwrap()[li].is_none() {
            // fails only in step mode
            sigs.lock().unwrap()[li] = r.fails[0].clone();
        }
        if let Some(s) = &r.fails[1] {
            // probe failed after a single request
            if probe_alone.as_deref() == Some(s.as_str()) {
                st.violation(Violation { signature: s.clone(), witness: witness(&[], Mode::Burst), detail: format!("the valid hover probe alone: {s}") });
            } else {
                st.violation(Violation { signature: s.clone(), witness: witness(&[l], mode), detail: format!("probe after {:?}: {s}", l.to_json()) });
            }
        }
    });
    (sigs.into_inner().unwrap(), st, ok)
}

/// the representative of a single-request failure signature: the first letter of the alphabet failing that way
fn canon(alpha: &[Letter], sigs: &[Option<String>], sig: &str) -> usize {
    sigs.iter().position(|s| s.as_deref() == Some(sig)).unwrap_or_else(|| {
        let _ = alpha;
        0
    })
}

fn confirm(ms: &[Method], letters: &[&Letter], mode: Mode, idx: usize, sig: &str) -> bool {
    // determinism before verdict: the same failure twice more, fresh server each
    (0..2).all(|_| run_seq(ms, letters, mode).fails.get(idx).and_then(|f| f.as_deref()) == Some(sig))
}

pub fn replay(w: &Value) -> Option<Violation> {
    let ms = methods();
    let alpha = alphabet(&ms);
    let mode = if w["mode"].as_str() == Some("step") { Mode::Step } else { Mode::Burst };
    let mut letters = Vec::new();
    for r in w["requests"].as_array()? {
        let l = alpha.iter().find(|l| l.method == r["method"].as_str().unwrap_or("") && l.shape == r["shape"].as_str().unwrap_or(""))?;
        letters.push(l);
    }
    let r = run_seq(&ms, &letters, mode);
    for (i, f) in r.fails.iter().enumerate() {
        if let Some(s) = f {
            let what = if i == letters.len() { "the probe".to_string() } else { format!("request {} ({})", i + 1, letters[i].wire(i as i32 + 1)) };
            return Some(Violation { signature: s.clone(), witness: w.clone(), detail: format!("{what}: {s}") });
        }
    }
    None
}

pub fn run(args: &Args) -> ! {
    install_panic_hook();
    if let Some(w) = args.replay_witness() {
        let w = if w.get("witness").is_some() { w["witness"].clone() } else { w };
        finish_replay(replay(&w), "C24");
    }
    let dl = args.deadline();
    let ms = methods();
    let alpha = alphabet(&ms);
    let mut rep = Report::new("C24", "exploration");
    let mut all = Stats::default();

    // k = 0: the probe on its own
    let probe_alone: Option<String> = run_seq(&ms, &[], Mode::Burst).fails[0].clone();
    all.eval(true);
    if let Some(sig) = &probe_alone {
        all.violation(Violation { signature: sig.clone(), witness: witness(&[], Mode::Burst), detail: format!("the valid hover probe alone: {sig}") });
    }
    // k = 1
    let (sigs, st, done1) = single_sigs(&ms, &alpha, args.threads, &dl, &probe_alone);
    all.merge(st);
    // violations of single requests, reduced to one representative per signature
    let mut by_sig: BTreeMap<String, u64> = BTreeMap::new();
    for s in sigs.iter().flatten() {
        *by_sig.entry(s.clone()).or_insert(0) += 1;
    }
    for (sig, n) in &by_sig {
        let ci = canon(&alpha, &sigs, sig);
        let l = &alpha[ci];
        let mode = if run_seq(&ms, &[l], Mode::Burst).fails[0].as_deref() == Some(sig) { Mode::Burst } else { Mode::Step };
        if !confirm(&ms, &[l], mode, 0, sig) {
            rep.machinery_error = Some(format!("single-request failure {sig} of {:?} did not reproduce", l.to_json()));
            continue;
        }
        let v = Violation {
            signature: sig.clone(),
            witness: witness(&[l], mode),
            detail: format!("request {} got no single well-formed response ({sig}); {n} of {} letters fail this way, this is the first in alphabet order", l.wire(1), alpha.len()),
        };
        for _ in 0..*n {
            all.violation(v.clone());
        }
    }

    // k = 2
    let n = alpha.len() as u64;
    let mut done2 = false;
    let mut pairs_done = 0u64;
    if done1 && !dl.expired() {
        let modes2: u64 = args.tier.pick(1, 2);
        let total = n * n * modes2;
        let (st, ok) = par_range(total, args.threads, &dl, |i, st| {
            let mode = if i % modes2 == 0 { Mode::Burst } else { Mode::Step };
            let a = ((i / modes2) / n) as usize;
            let b = ((i / modes2) % n) as usize;
            let letters = [&alpha[a], &alpha[b]];
            let r = run_seq(&ms, &letters, mode);
            st.eval(true);
            st.outcome(&r.classes.join("|"));
            if i % 100_003 == 11 {
                st.sample(|| json!({"sequence": [letters[0].to_json(), letters[1].to_json()], "mode": mode.name(), "classes": r.classes}));
            }
            for (idx, f) in r.fails.iter().enumerate() {
                let Some(f) = f else { continue };
                if idx == 2 && probe_alone.as_deref() == Some(f.as_str()) {
                    st.violation(Violation { signature: f.clone(), witness: witness(&[], Mode::Burst), detail: format!("the valid hover probe alone: {f}") });
                    continue;
                }
                if idx < 2 {
                    let li = [a, b][idx];
                    if let Some(s) = &sigs[li] {
                        if kind(s) == kind(f) {
                            // the request fails the same way on its own: reduces to the single-request witness
                            let ci = canon(&alpha, &sigs, s);
                            st.violation(Violation { signature: s.clone(), witness: witness(&[&alpha[ci]], Mode::Burst), detail: String::new() });
                            continue;
                        }
                    }
                }
                // a failure that needs the sequence: minimise the sequence while request `idx` (tracked by identity) still fails this way
                let target: Option<&Letter> = if idx < 2 { Some(letters[idx]) } else { None };
                let still = |cand: &[&Letter]| -> bool {
                    let r = run_seq(&ms, cand, mode);
                    match target {
                        None => r.fails.last().and_then(|x| x.as_deref()) == Some(f.as_str()),
                        Some(t) => cand.iter().enumerate().any(|(j, l)| *l == t && r.fails[j].as_deref() == Some(f.as_str())),
                    }
                };
                if !still(&letters) {
                    st.undecided += 1;
                    st.outcome("unstable-failure");
                    continue;
                }
                let min = minimise_seq(&letters, |c| still(c));
                st.violation(Violation {
                    signature: f.clone(),
                    witness: witness(&min, mode),
                    detail: format!("in sequence {:?} ({}) request #{}: {f}", min.iter().map(|l| l.to_json()).collect::<Vec<_>>(), mode.name(), idx + 1),
                });
            }
        });
        all.merge(st);
        done2 = ok;
        pairs_done = if ok { total } else { 0 };
    }
    // violations recorded inside par_range with an empty detail get the k=1 detail by key merge; fix details up
    let details: BTreeMap<String, String> = all.violations.iter().filter(|(_, (v, _))| !v.detail.is_empty()).map(|(k, (v, _))| (k.clone(), v.detail.clone())).collect();
    for (k, (v, _)) in all.violations.iter_mut() {
        if v.detail.is_empty() {
            v.detail = details.get(k).cloned().unwrap_or_else(|| "fails on its own in the same way".into());
        }
    }
    let foreign = FOREIGN_PANICS.lock().unwrap().clone();
    if !foreign.is_empty() {
        rep.machinery_error = Some(format!("panic on a non-worker thread: {}", foreign[0]));
    }

    rep.rule = format!(
        "the probe alone and every sequence of 1 or 2 requests over an alphabet of {} letters = 38 registered methods × {{valid, valid with position beyond the document end, each key path of the valid params removed, each key path set to another JSON type, params null/absent/string/number/bool/array}} + unknown and $/-unknown methods, followed by a valid hover probe, single requests in two feeding modes (burst, step) and pairs in burst mode (quick) or both (thorough), fresh ServerContext per sequence, messages parsed from wire JSON by lsp_server; oracle: at quiescence (no alive tokio task, client channel drained) every request id has exactly one Response with result xor error and the probe has a result; non-trivial = every case (each dispatches ≥2 real requests)",
        alpha.len()
    );
    rep.exhaustive = done1 && done2;
    rep.bounds = json!({"alphabet": alpha.len(), "methods": ms.len(), "k_target": 2, "k_completed": if done2 { 2 } else if done1 { 1 } else { 0 },
        "sequences_k1": alpha.len() * 2, "sequences_k2": pairs_done, "modes_k1": 2, "modes_k2": args.tier.pick(1, 2), "wall_cap_s": args.wall_cap_s, "wall_cap_hit": dl.was_hit()});
    rep.set("failing_letters_by_signature", json!(by_sig));
    rep.assumptions = vec![
        "in-process part (a) only: no $/cancelRequest, no schedules (part b), no stdio/initialize leg (part c)".into(),
        "quiescence = tokio current-thread runtime reports no alive task and the client end of the memory connection is empty".into(),
        "server->client requests are answered with a null result by the harness client".into(),
        "param shapes are derived from one valid params value per method; deeper malformations (inside arrays, wrong enum values) are not enumerated".into(),
    ];
    rep.finish(args, all)
}
