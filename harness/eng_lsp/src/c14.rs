//! C14 — rename and references agree with name resolution.
//!
//! Programs: every derivation of ≤ n statements (nested statements counted, nesting ≤ 2) of the C13
//! generator grammar over names {a,b}. For every occurrence of a name that the server's own
//! `SemanticModel::find_decl` (NoTrace = pure scoping) resolves to a local/parameter declaration D:
//! `textDocument/rename` (fresh name "zz") and `textDocument/references` (includeDeclaration) through
//! the real handlers. Oracle: edits pairwise non-overlapping; edit set == {D} ∪ {uses u | find_decl(u)
//! == D}, all with newText "zz"; references == the same set; after applying the edits and installing
//! the new text, the map name-occurrence-index → declaration-occurrence-index is unchanged.
use crate::srv::*;
use crate::sweep::with_srv;
use emmylua_code_analysis::{LuaSemanticDeclId, SemanticDeclLevel};
use emmylua_parser::LuaAstNode;
use serde_json::{Value, json};
use std::collections::{BTreeMap, BTreeSet};
use std::str::FromStr;
use vcore::*;

// ---------------------------------------------------------------- generator

#[derive(Clone, Debug)]
pub enum Stmt {
    Leaf(String),
    Ret(String),
    Block { head: String, tail: String, body: Vec<Stmt> },
    If { cond: String, then: Vec<Stmt>, els: Vec<Stmt> },
}

pub struct Grammar {
    pub leaves: Vec<String>,
    pub rets: Vec<String>,
    /// (head, tail) of statements with one body
    pub blocks: Vec<(String, String)>,
    pub if_conds: Vec<String>,
}

const NAMES: [&str; 2] = ["a", "b"];

/// full alphabet: every generator form of DESIGN C13 with its name/expression choices
pub fn full_grammar() -> Grammar {
    let e4 = ["a", "b", "a + b", "a(b)"];
    let mut leaves = Vec::new();
    for x in NAMES {
        for e in e4 {
            leaves.push(format!("local {x} = {e}"));
        }
    }
    for (x, y) in [("a", "b"), ("a", "a")] {
        for (e, f) in [("a", "b"), ("b", "a")] {
            leaves.push(format!("local {x}, {y} = {e}, {f}"));
        }
    }
    for x in NAMES {
        for e in ["a", "b", "a(b)"] {
            leaves.push(format!("{x} = {e}"));
        }
    }
    for e in NAMES {
        leaves.push(format!("a, b = {e}"));
    }
    let rets = ["a", "b", "a + b"].iter().map(|e| format!("return {e}")).collect();
    let mut blocks = Vec::new();
    for x in NAMES {
        for p in NAMES {
            blocks.push((format!("local function {x}({p})"), "end".to_string()));
            blocks.push((format!("function {x}({p})"), "end".to_string()));
            blocks.push((format!("local {x} = function({p})"), "end".to_string()));
            blocks.push((format!("function t.{x}({p})"), "end".to_string()));
            blocks.push((format!("function t:{x}({p})"), "end".to_string()));
        }
        for (e, f) in [("a", "b"), ("b", "a")] {
            blocks.push((format!("for {x} = {e}, {f} do"), "end".to_string()));
        }
        blocks.push((format!("while {x} do"), "end".to_string()));
        blocks.push(("repeat".to_string(), format!("until {x}")));
    }
    for (x, y) in [("a", "b"), ("a", "a")] {
        for e in NAMES {
            blocks.push((format!("for {x}, {y} in {e} do"), "end".to_string()));
        }
    }
    blocks.push(("do".to_string(), "end".to_string()));
    Grammar { leaves, rets, blocks, if_conds: NAMES.iter().map(|s| s.to_string()).collect() }
}

/// core alphabet: one representative per generator form (one per LuaScopeKind / cutoff rule)
pub fn core_grammar() -> Grammar {
    let s = |x: &str| x.to_string();
    Grammar {
        leaves: vec![s("local a = b"), s("local a = a"), s("local b = a(b)"), s("local a, a = b, a"), s("a = b"), s("a, b = a")],
        rets: vec![s("return a")],
        blocks: vec![
            (s("local function a(a)"), s("end")),
            (s("function a(b)"), s("end")),
            (s("local b = function(a)"), s("end")),
            (s("for a = a, b do"), s("end")),
            (s("for a, b in a do"), s("end")),
            (s("repeat"), s("until a")),
            (s("while a do"), s("end")),
            (s("do"), s("end")),
            (s("function t.a(b)"), s("end")),
            (s("function t:b(a)"), s("end")),
        ],
        if_conds: vec![s("a")],
    }
}

/// all statement sequences of total size exactly `n` with nesting ≤ `depth`; `return` only last
fn seqs(g: &Grammar, n: usize, depth: usize, memo: &mut BTreeMap<(usize, usize), Vec<Vec<Stmt>>>) -> Vec<Vec<Stmt>> {
    if n == 0 {
        return vec![vec![]];
    }
    if let Some(v) = memo.get(&(n, depth)) {
        return v.clone();
    }
    let mut out = Vec::new();
    for k in 1..=n {
        let firsts = stmts(g, k, depth, memo);
        let rests = seqs(g, n - k, depth, memo);
        for f in &firsts {
            if matches!(f, Stmt::Ret(_)) && n - k > 0 {
                continue;
            }
            for r in &rests {
                let mut v = Vec::with_capacity(1 + r.len());
                v.push(f.clone());
                v.extend(r.iter().cloned());
                out.push(v);
            }
        }
    }
    memo.insert((n, depth), out.clone());
    out
}

fn stmts(g: &Grammar, n: usize, depth: usize, memo: &mut BTreeMap<(usize, usize), Vec<Vec<Stmt>>>) -> Vec<Stmt> {
    let mut out = Vec::new();
    if n == 1 {
        out.extend(g.leaves.iter().map(|l| Stmt::Leaf(l.clone())));
        out.extend(g.rets.iter().map(|l| Stmt::Ret(l.clone())));
    }
    if depth > 0 {
        // compound statements: head + bodies of total size n-1, one nesting level deeper
        let inner = n - 1;
        let d = depth - 1;
        let bodies = seqs(g, inner, d, memo);
        for (h, t) in &g.blocks {
            for b in &bodies {
                out.push(Stmt::Block { head: h.clone(), tail: t.clone(), body: b.clone() });
            }
        }
        for c in &g.if_conds {
            for i in 0..=inner {
                let thens = seqs(g, i, d, memo);
                let elses = seqs(g, inner - i, d, memo);
                for t in &thens {
                    for e in &elses {
                        out.push(Stmt::If { cond: c.clone(), then: t.clone(), els: e.clone() });
                    }
                }
            }
        }
    }
    out
}

fn render(ss: &[Stmt], ind: usize, out: &mut String) {
    let pad = "  ".repeat(ind);
    for s in ss {
        match s {
            Stmt::Leaf(l) | Stmt::Ret(l) => {
                out.push_str(&pad);
                out.push_str(l);
                out.push('\n');
            }
            Stmt::Block { head, tail, body } => {
                out.push_str(&pad);
                out.push_str(head);
                out.push('\n');
                render(body, ind + 1, out);
                out.push_str(&pad);
                out.push_str(tail);
                out.push('\n');
            }
            Stmt::If { cond, then, els } => {
                out.push_str(&format!("{pad}if {cond} then\n"));
                render(then, ind + 1, out);
                out.push_str(&format!("{pad}else\n"));
                render(els, ind + 1, out);
                out.push_str(&format!("{pad}end\n"));
            }
        }
    }
}

pub fn programs(g: &Grammar, n: usize) -> Vec<String> {
    let mut memo = BTreeMap::new();
    seqs(g, n, 2, &mut memo)
        .iter()
        .map(|p| {
            let mut s = String::new();
            render(p, 0, &mut s);
            s
        })
        .collect()
}

// ---------------------------------------------------------------- analysis of one program

/// byte offsets of the occurrences of the names a / b (whole identifiers)
pub fn name_occurrences(text: &str) -> Vec<usize> {
    let b = text.as_bytes();
    let mut out = Vec::new();
    let mut i = 0;
    while i < b.len() {
        if b[i].is_ascii_alphanumeric() || b[i] == b'_' {
            let s = i;
            while i < b.len() && (b[i].is_ascii_alphanumeric() || b[i] == b'_') {
                i += 1;
            }
            if i - s == 1 && (b[s] == b'a' || b[s] == b'b') {
                out.push(s);
            }
        } else {
            i += 1;
        }
    }
    out
}

fn line_col(text: &str, off: usize) -> (u32, u32) {
    let before = &text[..off];
    let line = before.matches('\n').count() as u32;
    let col = (off - before.rfind('\n').map(|i| i + 1).unwrap_or(0)) as u32;
    (line, col)
}

#[derive(Clone, Debug, PartialEq, Eq, PartialOrd, Ord)]
pub enum Res {
    /// resolves to the local/param declaration whose name token is occurrence #i
    Local(usize),
    /// a local declaration whose range is not one of the name occurrences (should not happen)
    LocalElsewhere(u32),
    Global,
    Member,
    Other,
    Unresolved,
}

/// the server's own name resolution for every occurrence
pub fn resolution(s: &mut Srv, text: &str, occ: &[usize]) -> Option<Vec<Res>> {
    let uri = lsp_types::Uri::from_str(DOC_URI).ok()?;
    s.with_analysis(|a| {
        let fid = a.get_file_id(&uri)?;
        let sm = a.compilation.get_semantic_model(fid)?;
        let root = sm.get_root();
        if root.syntax().text().to_string() != text {
            return None;
        }
        let mut out = Vec::new();
        for &o in occ {
            let tok = root.syntax().token_at_offset((o as u32).into()).right_biased()?;
            let r = match sm.find_decl(tok.into(), SemanticDeclLevel::NoTrace) {
                Some(LuaSemanticDeclId::LuaDecl(id)) => match sm.get_db().get_decl_index().get_decl(&id) {
                    Some(d) if d.is_local() => {
                        let start = u32::from(d.get_range().start());
                        match occ.iter().position(|&x| x as u32 == start) {
                            Some(i) if id.file_id == fid => Res::Local(i),
                            _ => Res::LocalElsewhere(start),
                        }
                    }
                    Some(_) => Res::Global,
                    None => Res::Other,
                },
                Some(LuaSemanticDeclId::Member(_)) => Res::Member,
                Some(_) => Res::Other,
                None => Res::Unresolved,
            };
            out.push(r);
        }
        Some(out)
    })
}

fn as_range(v: &Value) -> Option<((u32, u32), (u32, u32))> {
    let p = |x: &Value| Some((x.get("line")?.as_u64()? as u32, x.get("character")?.as_u64()? as u32));
    Some((p(v.get("start")?)?, p(v.get("end")?)?))
}

type R = ((u32, u32), (u32, u32));

fn rename_edits(res: &Value) -> Option<Vec<(String, R, String)>> {
    let mut out = Vec::new();
    if let Some(ch) = res.get("changes").and_then(|c| c.as_object()) {
        for (uri, edits) in ch {
            for e in edits.as_array()? {
                out.push((uri.clone(), as_range(e.get("range")?)?, e.get("newText")?.as_str()?.to_string()));
            }
        }
    }
    for dc in res.get("documentChanges").and_then(|c| c.as_array()).into_iter().flatten() {
        let uri = dc.get("textDocument")?.get("uri")?.as_str()?.to_string();
        for e in dc.get("edits")?.as_array()? {
            out.push((uri.clone(), as_range(e.get("range")?)?, e.get("newText")?.as_str()?.to_string()));
        }
    }
    Some(out)
}

fn apply_edits(text: &str, edits: &[(R, String)]) -> Option<String> {
    // positions -> byte offsets (ASCII programs: character == byte column)
    let starts: Vec<usize> = std::iter::once(0).chain(text.match_indices('\n').map(|(i, _)| i + 1)).collect();
    let off = |p: (u32, u32)| -> Option<usize> { Some(starts.get(p.0 as usize)? + p.1 as usize) };
    let mut es: Vec<(usize, usize, &str)> = Vec::new();
    for (r, t) in edits {
        es.push((off(r.0)?, off(r.1)?, t.as_str()));
    }
    es.sort();
    let mut out = text.to_string();
    for (s, e, t) in es.into_iter().rev() {
        if s > e || e > out.len() {
            return None;
        }
        out.replace_range(s..e, t);
    }
    Some(out)
}

pub const FRESH: &str = "zz";

/// occurrences in a renamed program: names a / b / zz
fn occurrences_renamed(text: &str) -> Vec<usize> {
    let b = text.as_bytes();
    let mut out = Vec::new();
    let mut i = 0;
    while i < b.len() {
        if b[i].is_ascii_alphanumeric() || b[i] == b'_' {
            let s = i;
            while i < b.len() && (b[i].is_ascii_alphanumeric() || b[i] == b'_') {
                i += 1;
            }
            let w = &text[s..i];
            if w == "a" || w == "b" || w == FRESH {
                out.push(s);
            }
        } else {
            i += 1;
        }
    }
    out
}

/// all defects of one program: (signature, occurrence index, detail)
pub fn check_program(s: &mut Srv, text: &str, st: &mut Stats) -> Vec<(String, usize, String)> {
    let mut bad = Vec::new();
    let o = s.set_doc(text);
    if !o.panics.is_empty() {
        st.undecided += 1;
        st.outcome("document-not-installed");
        return bad;
    }
    let occ = name_occurrences(text);
    let Some(res) = resolution(s, text, &occ) else {
        st.undecided += 1;
        st.outcome("no-semantic-model");
        return bad;
    };
    let range_of = |i: usize| -> R {
        let (l, c) = line_col(text, occ[i]);
        ((l, c), (l, c + 1))
    };
    // groups: declaration occurrence -> member occurrences
    let mut groups: BTreeMap<usize, BTreeSet<usize>> = BTreeMap::new();
    for (i, r) in res.iter().enumerate() {
        match r {
            Res::Local(d) => {
                groups.entry(*d).or_default().insert(i);
                groups.entry(*d).or_default().insert(*d);
            }
            Res::LocalElsewhere(_) => {
                st.undecided += 1;
                st.outcome("decl-range-is-not-a-name-occurrence");
            }
            Res::Global | Res::Member | Res::Other | Res::Unresolved => {
                // the statement speaks of locals and parameters only
                st.undecided += 1;
            }
        }
    }
    st.outcome(&format!("locals={} occurrences={}", groups.len().min(4), occ.len().min(8)));
    for (d, members) in &groups {
        let expected: BTreeSet<R> = members.iter().map(|&i| range_of(i)).collect();
        for &i in members {
            let (l, c) = line_col(text, occ[i]);
            let role = if i == *d { "decl" } else { "use" };
            // ---- rename
            let (id, o) = s.request("textDocument/rename", json!({"textDocument": {"uri": DOC_URI}, "position": {"line": l, "character": c}, "newName": FRESH}));
            st.eval(true);
            let edits = match answer(&o, id) {
                Answer::Result(v) if !v.is_null() => rename_edits(&v),
                _ => None,
            };
            match edits {
                None => {
                    st.outcome("rename:none");
                    bad.push((format!("rename-no-edit:{role}"), i, format!("rename at {l}:{c} returned no workspace edit; expected edits {expected:?}")));
                }
                Some(es) => {
                    let mut rs: Vec<R> = es.iter().map(|e| e.1).collect();
                    rs.sort();
                    let overlap = rs.windows(2).any(|w| w[0].1 > w[1].0);
                    let got: BTreeSet<R> = rs.iter().cloned().collect();
                    let foreign = es.iter().any(|e| e.0 != DOC_URI);
                    let wrong_text = es.iter().any(|e| e.2 != FRESH);
                    if overlap {
                        bad.push((format!("rename-overlap:{role}"), i, format!("rename at {l}:{c}: overlapping edits {rs:?}")));
                    }
                    if got != expected || foreign || wrong_text || rs.len() != got.len() {
                        let kind = if got.is_subset(&expected) && !foreign { "missing" } else if got.is_superset(&expected) { "extra" } else { "different" };
                        bad.push((format!("rename-set-{kind}:{role}"), i, format!("rename at {l}:{c}: edits {rs:?}, resolution says {expected:?}")));
                        st.outcome("rename:set-mismatch");
                    } else {
                        st.outcome("rename:set-ok");
                        // ---- apply, re-analyse, compare the resolution structure
                        let plain: Vec<(R, String)> = es.iter().map(|e| (e.1, e.2.clone())).collect();
                        match apply_edits(text, &plain) {
                            None => bad.push((format!("rename-unappliable:{role}"), i, format!("edits {rs:?} do not apply"))),
                            Some(new_text) => {
                                s.set_doc(&new_text);
                                let occ2 = occurrences_renamed(&new_text);
                                let res2 = if occ2.len() == occ.len() { resolution(s, &new_text, &occ2) } else { None };
                                if res2.as_ref() != Some(&res) {
                                    bad.push((format!("rename-changes-resolution:{role}"), i, format!("after renaming occurrence #{i} to {FRESH}: {new_text:?} resolves as {res2:?}, before {res:?}")));
                                    st.outcome("rename:structure-changed");
                                } else {
                                    st.outcome("rename:structure-preserved");
                                }
                                s.set_doc(text);
                            }
                        }
                    }
                }
            }
            // ---- references
            let (id, o) = s.request(
                "textDocument/references",
                json!({"textDocument": {"uri": DOC_URI}, "position": {"line": l, "character": c}, "context": {"includeDeclaration": true}}),
            );
            st.eval(true);
            let locs: Option<Vec<(String, R)>> = match answer(&o, id) {
                Answer::Result(v) if !v.is_null() => v.as_array().map(|a| a.iter().filter_map(|x| Some((x.get("uri")?.as_str()?.to_string(), as_range(x.get("range")?)?))).collect()),
                _ => None,
            };
            match locs {
                None => {
                    st.outcome("references:none");
                    bad.push((format!("references-none:{role}"), i, format!("references at {l}:{c} returned nothing; expected {expected:?}")));
                }
                Some(ls) => {
                    let got: BTreeSet<R> = ls.iter().map(|x| x.1).collect();
                    let foreign = ls.iter().any(|x| x.0 != DOC_URI);
                    if got != expected || foreign {
                        let kind = if got.is_subset(&expected) && !foreign { "missing" } else if got.is_superset(&expected) { "extra" } else { "different" };
                        let kind = if !got.is_empty() && !got.contains(&range_of(i)) { format!("{kind}-without-cursor") } else { kind.to_string() };
                        bad.push((format!("references-set-{kind}:{role}"), i, format!("references at {l}:{c}: {got:?}, resolution says {expected:?}")));
                        st.outcome("references:set-mismatch");
                    } else {
                        st.outcome("references:set-ok");
                    }
                }
            }
        }
    }
    bad
}

// ---------------------------------------------------------------- minimisation / replay

/// parse the generator's own rendering back into its AST (one statement per line, two-space indentation)
pub fn parse_program(text: &str) -> Vec<Stmt> {
    fn level(l: &str) -> usize {
        (l.len() - l.trim_start().len()) / 2
    }
    fn block(lines: &[&str], i: &mut usize, lv: usize) -> Vec<Stmt> {
        let mut out = Vec::new();
        while *i < lines.len() && level(lines[*i]) == lv {
            let l = lines[*i].trim();
            if l == "end" || l == "else" || l.starts_with("until ") {
                break;
            }
            *i += 1;
            let is_if = l.starts_with("if ");
            let is_head = l.ends_with(" do") || l == "do" || l == "repeat" || l.starts_with("function ") || l.starts_with("local function ") || l.contains("= function(");
            if is_if {
                let cond = l.trim_start_matches("if ").trim_end_matches(" then").to_string();
                let then = block(lines, i, lv + 1);
                *i += 1; // else
                let els = block(lines, i, lv + 1);
                *i += 1; // end
                out.push(Stmt::If { cond, then, els });
            } else if is_head {
                let body = block(lines, i, lv + 1);
                let tail = lines.get(*i).map(|t| t.trim().to_string()).unwrap_or_else(|| "end".into());
                *i += 1;
                out.push(Stmt::Block { head: l.to_string(), tail, body });
            } else if l.starts_with("return ") {
                out.push(Stmt::Ret(l.to_string()));
            } else {
                out.push(Stmt::Leaf(l.to_string()));
            }
        }
        out
    }
    let lines: Vec<&str> = text.lines().collect();
    let mut i = 0;
    block(&lines, &mut i, 0)
}

fn render_program(p: &[Stmt]) -> String {
    let mut s = String::new();
    render(p, 0, &mut s);
    s
}

/// number of statement nodes
fn count(p: &[Stmt]) -> usize {
    p.iter()
        .map(|s| match s {
            Stmt::Leaf(_) | Stmt::Ret(_) => 1,
            Stmt::Block { body, .. } => 1 + count(body),
            Stmt::If { then, els, .. } => 1 + count(then) + count(els),
        })
        .sum()
}

/// apply `f` to the `k`-th statement node (pre-order) of the program: f returns the replacement list
fn rewrite(p: &[Stmt], k: &mut isize, f: &dyn Fn(&Stmt) -> Vec<Stmt>) -> Vec<Stmt> {
    let mut out = Vec::new();
    for s in p {
        if *k == 0 {
            *k -= 1;
            out.extend(f(s));
            continue;
        }
        *k -= 1;
        out.push(match s {
            Stmt::Leaf(_) | Stmt::Ret(_) => s.clone(),
            Stmt::Block { head, tail, body } => Stmt::Block { head: head.clone(), tail: tail.clone(), body: rewrite(body, k, f) },
            Stmt::If { cond, then, els } => {
                let t = rewrite(then, k, f);
                let e = rewrite(els, k, f);
                Stmt::If { cond: cond.clone(), then: t, els: e }
            }
        });
    }
    out
}

fn valid_shape(p: &[Stmt]) -> bool {
    // `return` only as the last statement of its block
    p.iter().enumerate().all(|(i, s)| match s {
        Stmt::Ret(_) => i + 1 == p.len(),
        Stmt::Leaf(_) => true,
        Stmt::Block { body, .. } => valid_shape(body),
        Stmt::If { then, els, .. } => valid_shape(then) && valid_shape(els),
    })
}

/// Structural minimisation on the generator's own AST: delete a statement, hoist a body in place of its
/// compound statement, replace a statement by an earlier one of the canonical statement list (full
/// grammar order: simple statements, returns, empty compounds) — while a defect with the same
/// signature remains somewhere in the program.
fn minimise(text: &str, sig: &str) -> Option<Violation> {
    let fails = |p: &[Stmt]| -> bool {
        if !valid_shape(p) {
            return false;
        }
        let t = render_program(p);
        crate::sweep::cached(format!("{sig}\u{1}{t}"), || {
            let mut scratch = Stats::default();
            with_srv(false, |s| check_program(s, &t, &mut scratch)).iter().any(|b| b.0 == sig)
        })
    };
    let g = full_grammar();
    let mut universe: Vec<Stmt> = g.leaves.iter().map(|l| Stmt::Leaf(l.clone())).collect();
    universe.extend(g.rets.iter().map(|l| Stmt::Ret(l.clone())));
    universe.extend(g.blocks.iter().map(|(h, t)| Stmt::Block { head: h.clone(), tail: t.clone(), body: vec![] }));
    universe.extend(g.if_conds.iter().map(|c| Stmt::If { cond: c.clone(), then: vec![], els: vec![] }));
    let key = |s: &Stmt| -> String {
        match s {
            Stmt::Leaf(l) | Stmt::Ret(l) => l.clone(),
            Stmt::Block { head, tail, .. } => format!("{head}|{tail}"),
            Stmt::If { cond, .. } => format!("if {cond}"),
        }
    };
    let mut cur = parse_program(text);
    if !fails(&cur) {
        return None;
    }
    loop {
        let mut progressed = false;
        let mut k = 0;
        while k < count(&cur) {
            // 1. delete   2. hoist
            let del = rewrite(&cur, &mut (k as isize), &|_| vec![]);
            if fails(&del) {
                cur = del;
                progressed = true;
                continue;
            }
            let hoist = rewrite(&cur, &mut (k as isize), &|s| match s {
                Stmt::Block { body, .. } => body.clone(),
                Stmt::If { then, els, .. } => then.iter().chain(els.iter()).cloned().collect(),
                x => vec![x.clone()],
            });
            if count(&hoist) < count(&cur) && fails(&hoist) {
                cur = hoist;
                progressed = true;
                continue;
            }
            // 3. replace by an earlier statement of the canonical list (bodies are kept for compound → compound)
            for u in &universe {
                let mut same = false;
                let cand = rewrite(&cur, &mut (k as isize), &|s| {
                    if key(s) == key(u) {
                        return vec![s.clone()];
                    }
                    match (s, u) {
                        (Stmt::Block { body, .. }, Stmt::Block { head, tail, .. }) => vec![Stmt::Block { head: head.clone(), tail: tail.clone(), body: body.clone() }],
                        (Stmt::If { then, els, .. }, Stmt::If { cond, .. }) => vec![Stmt::If { cond: cond.clone(), then: then.clone(), els: els.clone() }],
                        _ => vec![u.clone()],
                    }
                });
                if render_program(&cand) == render_program(&cur) {
                    same = true;
                }
                if same {
                    break; // reached the statement's own place in the canonical order
                }
                if fails(&cand) {
                    cur = cand;
                    progressed = true;
                    break;
                }
            }
            k += 1;
        }
        if !progressed {
            break;
        }
    }
    let t = render_program(&cur);
    // determinism before verdict: fresh server
    let mut fresh = Srv::new(false);
    let mut scratch = Stats::default();
    let bad = check_program(&mut fresh, &t, &mut scratch);
    let (_, occ, detail) = bad.into_iter().find(|b| b.0 == sig)?;
    Some(Violation { signature: sig.to_string(), witness: json!({"program": t, "occurrence": occ}), detail })
}

pub fn replay(w: &Value) -> Option<Violation> {
    let t = w["program"].as_str()?;
    let mut s = Srv::new(false);
    let mut scratch = Stats::default();
    let bad = check_program(&mut s, t, &mut scratch);
    let occ = w["occurrence"].as_u64().map(|x| x as usize);
    bad.into_iter().find(|b| occ.is_none() || Some(b.1) == occ).map(|b| Violation { signature: b.0, witness: w.clone(), detail: b.2 })
}

pub fn run(args: &Args) -> ! {
    install_panic_hook();
    if let Some(w) = args.replay_witness() {
        let w = if w.get("witness").is_some() { w["witness"].clone() } else { w };
        finish_replay(replay(&w), "C14");
    }
    let dl = args.deadline();
    let mut rep = Report::new("C14", "exploration");
    let mut all = Stats::default();
    let full = full_grammar();
    let core = core_grammar();
    // (grammar name, grammar, sizes)
    let plan: Vec<(&str, &Grammar, Vec<usize>)> = match args.tier {
        Tier::Quick => vec![("full", &full, vec![1, 2]), ("core", &core, vec![3])],
        Tier::Thorough => vec![("full", &full, vec![1, 2]), ("core", &core, vec![3, 4]), ("full", &full, vec![3])],
    };
    let mut phases = Vec::new();
    let mut exhaustive = true;
    let mut chosen: BTreeMap<String, (Violation, u64)> = BTreeMap::new();
    'outer: for (gname, g, sizes) in plan {
        for n in sizes {
            let progs = programs(g, n);
            let (st, ok) = par_range(progs.len() as u64, args.threads, &dl, |i, st| {
                let text = &progs[i as usize];
                let bad = with_srv(false, |s| check_program(s, text, st));
                if i % 997 == 5 {
                    st.sample(|| json!({"grammar": gname, "statements": n, "program": text}));
                }
                let sigs: BTreeSet<String> = bad.iter().map(|b| b.0.clone()).collect();
                for sig in sigs {
                    match minimise(text, &sig) {
                        Some(v) => st.violation(v),
                        None => {
                            st.undecided += 1;
                            st.outcome("unstable-defect");
                        }
                    }
                }
            });
            let mut st = st;
            // One fingerprint per signature: greedy structural minimisation is not confluent on programs, so
            // among the minimised witnesses of a signature the least one (fewest lines, then text order) of the
            // EARLIEST phase that shows the signature is reported (phases are ordered the same way in both
            // tiers, so both tiers name the same witness); all other raw cases count as reducing to it.
            let mut by_sig: BTreeMap<String, Vec<(Violation, u64)>> = BTreeMap::new();
            for (_, (v, n)) in std::mem::take(&mut st.violations) {
                by_sig.entry(v.signature.clone()).or_default().push((v, n));
            }
            for (sig, mut vs) in by_sig {
                let total: u64 = vs.iter().map(|x| x.1).sum();
                if let Some(e) = chosen.get_mut(&sig) {
                    e.1 += total;
                    continue;
                }
                vs.sort_by_key(|(v, _)| {
                    let t = v.witness["program"].as_str().unwrap_or("").to_string();
                    (t.lines().count(), t)
                });
                let nw = vs.len();
                let others: Vec<String> = vs.iter().skip(1).take(4).map(|(v, _)| format!("{:?}", v.witness["program"].as_str().unwrap_or(""))).collect();
                let (mut v, _) = vs.swap_remove(0);
                if !others.is_empty() {
                    v.detail = format!("{} [least of {nw} minimised witnesses with this signature in phase {gname}/n={n}; others e.g. {}]", v.detail, others.join(", "));
                }
                chosen.insert(sig, (v, total));
            }
            all.merge(st);
            phases.push(json!({"grammar": gname, "statements": n, "programs": progs.len(), "completed": ok}));
            if !ok {
                exhaustive = false;
                break 'outer;
            }
        }
    }
    for (_, (v, n)) in chosen {
        all.violations.insert(format!("{}:{}", v.signature, Violation::identity(&v.witness)), (v, n));
    }
    let foreign = FOREIGN_PANICS.lock().unwrap().clone();
    if !foreign.is_empty() {
        rep.machinery_error = Some(format!("panic on a non-worker thread: {}", foreign[0]));
    }
    rep.rule = format!(
        "every program of exactly n statements (nested statements counted, nesting ≤2, `return` only last in its block) of the generator grammar (full: {} simple statements, {} return forms, {} block heads, if/else on {} conditions; core: one representative per form) over names {{a,b}} × every occurrence of a name that the server's find_decl (NoTrace) resolves to a local or parameter × {{rename to fresh name, references with declaration}} through the real handlers; oracle: edits non-overlapping, edit set == references set == {{declaration}} ∪ {{uses resolving to it}}, and after applying the edits and re-analysing the occurrence→declaration map is unchanged; occurrences resolving to globals/members are counted undecided; non-trivial = every request",
        full.leaves.len(),
        full.rets.len(),
        full.blocks.len(),
        full.if_conds.len()
    );
    rep.exhaustive = exhaustive;
    rep.bounds = json!({"phases": phases, "names": NAMES, "fresh_name": FRESH, "nesting": 2, "wall_cap_s": args.wall_cap_s, "wall_cap_hit": dl.was_hit()});
    rep.assumptions = vec![
        "name resolution is the server's own find_decl at NoTrace level (whether that resolution is right is C13's subject)".into(),
        "programs contain no doc comments, so the parameter-doc edits of rename are not exercised".into(),
    ];
    if all.nontrivial == 0 && rep.machinery_error.is_none() {
        rep.machinery_error = Some("vacuous run: not a single request produced a result that could be judged".into());
    }
    rep.finish(args, all)
}
