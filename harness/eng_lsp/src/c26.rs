//! C26 — LSP results are structurally valid.
//!
//! Same documents as C25; every structure-returning request, position-taking ones at every token
//! boundary. Oracle = the statement, clause by clause:
//!  * every Position anywhere in a result lies inside its document (line exists, character ≤ line
//!    length under the most generous of the three LSP encodings) — own document by the reference text
//!    model, other documents (std library) by the text the server holds for that URI;
//!  * semantic tokens decode (delta → absolute) to in-document, strictly ordered, non-overlapping
//!    tokens whose type index and modifier bits are inside the legend of `server_capabilities`;
//!  * document symbols: child range ⊆ parent range, selectionRange ⊆ range;
//!  * folding ranges: start ≤ end;
//!  * selection ranges strictly grow outward;
//!  * a completion item's textEdit is single-line and contains the cursor;
//!  * the edits for one file of a WorkspaceEdit are pairwise non-overlapping.
use crate::docs::*;
use crate::srv::*;
use crate::sweep::*;
use serde_json::{Value, json};
use std::collections::{BTreeMap, HashMap};
use std::str::FromStr;
use vcore::*;

type Rng = (Pos, Pos);

fn as_pos(v: &Value) -> Option<Pos> {
    let o = v.as_object()?;
    Some((o.get("line")?.as_u64()? as u32, o.get("character")?.as_u64()? as u32))
}
fn as_range(v: &Value) -> Option<Rng> {
    Some((as_pos(v.get("start")?)?, as_pos(v.get("end")?)?))
}
fn within(inner: Rng, outer: Rng) -> bool {
    outer.0 <= inner.0 && inner.1 <= outer.1
}

/// every Position-like object in `v` with the URI of the document it refers to (None = the request's document)
fn collect_positions(v: &Value, ctx: Option<&str>, path: &mut String, out: &mut Vec<(Option<String>, Pos, String)>) {
    match v {
        Value::Array(a) => {
            for x in a {
                collect_positions(x, ctx, path, out);
            }
        }
        Value::Object(o) => {
            if let Some(p) = as_pos(v) {
                out.push((ctx.map(|s| s.to_string()), p, path.clone()));
                return;
            }
            let own_uri = o.get("uri").and_then(|u| u.as_str());
            let target_uri = o.get("targetUri").and_then(|u| u.as_str());
            let td_uri = if o.contains_key("edits") { o.get("textDocument").and_then(|t| t.get("uri")).and_then(|u| u.as_str()) } else { None };
            for (k, c) in o {
                if k == "data" || k == "arguments" {
                    continue;
                }
                let l = path.len();
                path.push('.');
                path.push_str(k);
                if (k == "changes" || k == "relatedDocuments") && c.is_object() {
                    for (uri, edits) in c.as_object().unwrap() {
                        collect_positions(edits, Some(uri), path, out);
                    }
                } else if k == "originSelectionRange" {
                    collect_positions(c, None, path, out);
                } else if let Some(t) = target_uri {
                    collect_positions(c, Some(t), path, out);
                } else if let Some(u) = own_uri.or(td_uri) {
                    collect_positions(c, Some(u), path, out);
                } else {
                    collect_positions(c, ctx, path, out);
                }
                path.truncate(l);
            }
        }
        _ => {}
    }
}

fn collect_workspace_edits<'a>(v: &'a Value, out: &mut Vec<&'a Value>) {
    match v {
        Value::Array(a) => a.iter().for_each(|x| collect_workspace_edits(x, out)),
        Value::Object(o) => {
            if o.contains_key("changes") || o.contains_key("documentChanges") {
                out.push(v);
            }
            for (k, c) in o {
                if k != "data" && k != "arguments" {
                    collect_workspace_edits(c, out);
                }
            }
        }
        _ => {}
    }
}

fn edits_overlap(edits: &[Rng]) -> Option<(Rng, Rng)> {
    let mut e: Vec<Rng> = edits.to_vec();
    e.sort();
    for w in e.windows(2) {
        if w[0].1 > w[1].0 {
            return Some((w[0], w[1]));
        }
    }
    None
}

pub struct Legend {
    pub types: usize,
    pub modifiers: usize,
}

pub fn legend() -> Legend {
    let caps = emmylua_ls::verif_api::server_capabilities(&client_capabilities());
    let v = serde_json::to_value(&caps).unwrap();
    let l = &v["semanticTokensProvider"]["legend"];
    Legend { types: l["tokenTypes"].as_array().map(|a| a.len()).unwrap_or(0), modifiers: l["tokenModifiers"].as_array().map(|a| a.len()).unwrap_or(0) }
}

/// document texts other than the request's own, as the server holds them
pub struct Others {
    cache: HashMap<String, Option<std::rc::Rc<TextModel>>>,
}
impl Others {
    pub fn new() -> Self {
        Others { cache: HashMap::new() }
    }
    fn get(&mut self, s: &mut Srv, uri: &str) -> Option<std::rc::Rc<TextModel>> {
        if let Some(x) = self.cache.get(uri) {
            return x.clone();
        }
        let text = lsp_types::Uri::from_str(uri).ok().and_then(|u| {
            s.with_analysis(|a| {
                let fid = a.get_file_id(&u)?;
                a.compilation.get_db().get_vfs().get_document(&fid).map(|d| d.get_text().to_string())
            })
        });
        let tm = text.map(|t| std::rc::Rc::new(TextModel::new(&t)));
        self.cache.insert(uri.to_string(), tm.clone());
        tm
    }
}

/// (kind, detail) of every structural defect of `result`
pub fn check_result(
    s: &mut Srv,
    others: &mut Others,
    tm: &TextModel,
    lg: &Legend,
    method: &str,
    target: &Target,
    result: &Value,
    undecided: &mut u64,
) -> Vec<(String, String)> {
    let mut bad: Vec<(String, String)> = Vec::new();
    if result.is_null() {
        return bad;
    }
    // 1. every position inside its document
    let mut ps = Vec::new();
    collect_positions(result, None, &mut String::new(), &mut ps);
    for (uri, p, path) in ps {
        let ok = match uri.as_deref() {
            None => tm.contains(p),
            Some(u) if u == DOC_URI => tm.contains(p),
            Some(u) => match others.get(s, u) {
                Some(m) => m.contains(p),
                None => {
                    *undecided += 1;
                    true
                }
            },
        };
        if !ok {
            // the shape of the excursion is part of the signature: "the line after the last one, character 0"
            // (one call site's idea of the end of the document) is a different defect from any other position outside
            let lines = match uri.as_deref() {
                Some(u) if u != DOC_URI => others.get(s, u).map(|m| m.line_count()).unwrap_or(0),
                _ => tm.line_count(),
            };
            let shape = if p.0 == lines && p.1 == 0 { "line-after-last:0" } else if p.0 >= lines { "line-beyond" } else { "character-beyond" };
            bad.push((format!("position-outside-document[{shape}]"), format!("{path} = {}:{} (document {} has {} lines)", p.0, p.1, uri.as_deref().unwrap_or("<request document>"), lines)));
            break;
        }
    }
    match method {
        "textDocument/semanticTokens/full" => {
            if let Some(data) = result.get("data").and_then(|d| d.as_array()) {
                if data.len() % 5 != 0 {
                    bad.push(("semantic-tokens:data-length".into(), format!("{} numbers", data.len())));
                }
                let (mut line, mut col) = (0u64, 0u64);
                let mut prev: Option<(u64, u64, u64)> = None;
                for (i, t) in data.chunks_exact(5).enumerate() {
                    let n = |j: usize| t[j].as_u64().unwrap_or(u64::MAX);
                    let (dl, dc, len, ty, mods) = (n(0), n(1), n(2), n(3), n(4));
                    if dl > 0 {
                        line += dl;
                        col = dc;
                    } else {
                        col += dc;
                    }
                    let in_doc = line < tm.line_count() as u64 && col + len <= tm.lens[line as usize].2 as u64;
                    if !in_doc {
                        bad.push(("semantic-tokens:out-of-document".into(), format!("token #{i} at {line}:{col} length {len}")));
                        break;
                    }
                    if let Some((pl, pc, plen)) = prev {
                        if (line, col) <= (pl, pc) {
                            bad.push(("semantic-tokens:unordered".into(), format!("token #{i} at {line}:{col} after {pl}:{pc}")));
                            break;
                        }
                        if line == pl && pc + plen > col {
                            bad.push(("semantic-tokens:overlap".into(), format!("token #{i} at {line}:{col} overlaps {pl}:{pc}+{plen}")));
                            break;
                        }
                    }
                    if ty >= lg.types as u64 {
                        bad.push(("semantic-tokens:type-outside-legend".into(), format!("token #{i} type {ty} ≥ {}", lg.types)));
                        break;
                    }
                    if lg.modifiers < 64 && mods >> lg.modifiers != 0 {
                        bad.push(("semantic-tokens:modifier-outside-legend".into(), format!("token #{i} modifiers {mods:#b}, legend has {}", lg.modifiers)));
                        break;
                    }
                    prev = Some((line, col, len));
                }
            }
        }
        "textDocument/documentSymbol" => {
            fn rec(sym: &Value, parent: Option<Rng>, bad: &mut Vec<(String, String)>) {
                let Some(r) = sym.get("range").and_then(as_range) else { return };
                if let Some(sel) = sym.get("selectionRange").and_then(as_range) {
                    if !within(sel, r) {
                        bad.push(("symbol:selection-outside-range".into(), format!("{} selectionRange {sel:?} range {r:?}", sym["name"])));
                    }
                }
                if let Some(p) = parent {
                    if !within(r, p) {
                        bad.push(("symbol:child-outside-parent".into(), format!("{} range {r:?} parent {p:?}", sym["name"])));
                    }
                }
                if let Some(ch) = sym.get("children").and_then(|c| c.as_array()) {
                    for c in ch {
                        rec(c, Some(r), bad);
                    }
                }
            }
            if let Some(a) = result.as_array() {
                for sym in a {
                    rec(sym, None, &mut bad);
                }
            }
        }
        "textDocument/foldingRange" => {
            if let Some(a) = result.as_array() {
                for f in a {
                    let (sl, el) = (f["startLine"].as_u64().unwrap_or(0), f["endLine"].as_u64().unwrap_or(0));
                    let (sc, ec) = (f["startCharacter"].as_u64(), f["endCharacter"].as_u64());
                    if sl > el || (sl == el && matches!((sc, ec), (Some(a), Some(b)) if a > b)) {
                        bad.push(("folding:start-after-end".into(), f.to_string()));
                        break;
                    }
                    if el >= tm.line_count() as u64 {
                        bad.push(("folding:line-outside-document".into(), f.to_string()));
                        break;
                    }
                }
            }
        }
        "textDocument/selectionRange" => {
            if let Some(a) = result.as_array() {
                'outer: for sr in a {
                    let mut cur = sr;
                    while let Some(r) = cur.get("range").and_then(as_range) {
                        let Some(parent) = cur.get("parent").filter(|p| !p.is_null()) else { break };
                        let Some(pr) = parent.get("range").and_then(as_range) else { break };
                        if !within(r, pr) || pr == r {
                            bad.push(("selection-range:not-strictly-growing".into(), format!("range {r:?} has parent {pr:?}")));
                            break 'outer;
                        }
                        cur = parent;
                    }
                }
            }
        }
        "textDocument/completion" => {
            if let Target::At(cursor) = target {
                let items = result.get("items").and_then(|i| i.as_array()).or_else(|| result.as_array());
                'items: for it in items.into_iter().flatten() {
                    let Some(te) = it.get("textEdit") else { continue };
                    for k in ["range", "insert", "replace"] {
                        if let Some(r) = te.get(k).and_then(as_range) {
                            if r.0.0 != r.1.0 {
                                bad.push(("completion:edit-multiline".into(), format!("{} {k} {r:?}", it["label"])));
                                break 'items;
                            }
                            if !(r.0 <= *cursor && *cursor <= r.1) {
                                bad.push(("completion:edit-misses-cursor".into(), format!("{} {k} {r:?} cursor {cursor:?}", it["label"])));
                                break 'items;
                            }
                        }
                    }
                }
            }
        }
        _ => {}
    }
    // workspace edits anywhere in the result (rename result, code action edits)
    let mut wes = Vec::new();
    collect_workspace_edits(result, &mut wes);
    for we in wes {
        let mut per_file: BTreeMap<String, Vec<Rng>> = BTreeMap::new();
        if let Some(ch) = we.get("changes").and_then(|c| c.as_object()) {
            for (uri, edits) in ch {
                for e in edits.as_array().into_iter().flatten() {
                    if let Some(r) = e.get("range").and_then(as_range) {
                        per_file.entry(uri.clone()).or_default().push(r);
                    }
                }
            }
        }
        for dc in we.get("documentChanges").and_then(|c| c.as_array()).into_iter().flatten() {
            let Some(uri) = dc.get("textDocument").and_then(|t| t.get("uri")).and_then(|u| u.as_str()) else { continue };
            for e in dc.get("edits").and_then(|e| e.as_array()).into_iter().flatten() {
                if let Some(r) = e.get("range").and_then(as_range) {
                    per_file.entry(uri.to_string()).or_default().push(r);
                }
            }
        }
        for (uri, rs) in per_file {
            if let Some((a, b)) = edits_overlap(&rs) {
                bad.push(("workspace-edit:overlap".into(), format!("{uri}: {a:?} and {b:?}")));
                break;
            }
        }
    }
    bad
}

// ---------------------------------------------------------------- request space

#[derive(Clone, Copy, PartialEq)]
enum Form {
    Doc,
    At,
    Range,
}

const FORMS: &[(&str, Form)] = &[
    ("textDocument/documentSymbol", Form::Doc),
    ("textDocument/foldingRange", Form::Doc),
    ("textDocument/semanticTokens/full", Form::Doc),
    ("textDocument/documentLink", Form::Doc),
    ("textDocument/documentColor", Form::Doc),
    ("textDocument/codeLens", Form::Doc),
    ("textDocument/formatting", Form::Doc),
    ("textDocument/diagnostic", Form::Doc),
    ("emmy/annotator", Form::Doc),
    ("emmy/gutter", Form::Doc),
    ("textDocument/hover", Form::At),
    ("textDocument/definition", Form::At),
    ("textDocument/implementation", Form::At),
    ("textDocument/references", Form::At),
    ("textDocument/rename", Form::At),
    ("textDocument/prepareRename", Form::At),
    ("textDocument/completion", Form::At),
    ("textDocument/documentHighlight", Form::At),
    ("textDocument/selectionRange", Form::At),
    ("textDocument/inlineValue", Form::At),
    ("textDocument/prepareCallHierarchy", Form::At),
    ("textDocument/onTypeFormatting", Form::At),
    ("textDocument/codeAction", Form::Range),
    ("textDocument/inlayHint", Form::Range),
    ("textDocument/rangeFormatting", Form::Range),
];

fn params_for(method: &str, t: &Target, diags: &Value) -> Value {
    match (method, t) {
        ("emmy/annotator" | "emmy/gutter", _) => json!({"uri": DOC_URI}),
        ("textDocument/formatting", _) => json!({"textDocument": {"uri": DOC_URI}, "options": {"tabSize": 4, "insertSpaces": true}}),
        ("textDocument/codeAction", Target::Range(..)) => {
            let mut p = t.params(method);
            p["context"]["diagnostics"] = diags.clone();
            p
        }
        _ => t.params(method),
    }
}

struct DocSpace {
    tm: TextModel,
    at: Vec<Pos>,
    ranges: Vec<(Pos, Pos)>,
}

fn doc_space(text: &str) -> DocSpace {
    let tm = TextModel::new(text);
    let at: Vec<Pos> = {
        let mut v: Vec<Pos> = token_starts(text).into_iter().map(|o| tm.pos_of(text, o)).collect();
        v.dedup();
        v
    };
    // in-document ranges: ordered pairs (s ≤ e) of first / middle / last token boundary
    let pick = [at[0], at[at.len() / 2], at[at.len() - 1]];
    let mut ranges = Vec::new();
    for (i, s) in pick.iter().enumerate() {
        for e in &pick[i..] {
            if !ranges.contains(&(*s, *e)) {
                ranges.push((*s, *e));
            }
        }
    }
    DocSpace { tm, at, ranges }
}

fn targets_of(form: Form, sp: &DocSpace) -> Vec<Target> {
    match form {
        Form::Doc => vec![Target::Doc],
        Form::At => sp.at.iter().map(|p| Target::At(*p)).collect(),
        Form::Range => sp.ranges.iter().map(|(s, e)| Target::Range(*s, *e)).collect(),
    }
}

/// run every request of `only` (or all) on the installed document; callback per (method, target, defects)
fn sweep_doc(
    s: &mut Srv,
    others: &mut Others,
    lg: &Legend,
    text: &str,
    only: Option<&str>,
    st: &mut Stats,
    mut on_bad: impl FnMut(&str, &Target, &str, &str),
) {
    let sp = doc_space(text);
    // diagnostics of the document feed the code-action context
    let diags = if only.is_none() || only == Some("textDocument/codeAction") {
        let (id, o) = s.request("textDocument/diagnostic", json!({"textDocument": {"uri": DOC_URI}}));
        match answer(&o, id) {
            Answer::Result(v) => v.get("items").cloned().unwrap_or(json!([])),
            _ => json!([]),
        }
    } else {
        json!([])
    };
    let mut classes: BTreeMap<String, u64> = BTreeMap::new();
    for (m, form) in FORMS {
        if only.is_some_and(|x| x != *m) {
            continue;
        }
        for t in targets_of(*form, &sp) {
            let (id, o) = s.request(m, params_for(m, &t, &diags));
            let short = m.trim_start_matches("textDocument/");
            let res = match answer(&o, id) {
                Answer::Result(v) if o.panics.is_empty() => v,
                _ => {
                    // no usable result: C25/C24's subject
                    st.undecided += 1;
                    *classes.entry(format!("{short}:no-result")).or_insert(0) += 1;
                    continue;
                }
            };
            st.eval(!res.is_null());
            let mut und = 0;
            let bad = check_result(s, others, &sp.tm, lg, m, &t, &res, &mut und);
            st.undecided += und;
            let cls = if res.is_null() {
                "null"
            } else if res.as_array().is_some_and(|a| a.is_empty()) {
                "empty"
            } else if bad.is_empty() {
                "valid-structure"
            } else {
                "defect"
            };
            *classes.entry(format!("{short}:{cls}")).or_insert(0) += 1;
            for (k, d) in &bad {
                on_bad(m, &t, k, d);
            }
            // call hierarchy: follow the prepared items
            if *m == "textDocument/prepareCallHierarchy" {
                for item in res.as_array().into_iter().flatten() {
                    for m2 in ["callHierarchy/incomingCalls", "callHierarchy/outgoingCalls"] {
                        let (id, o) = s.request(m2, json!({"item": item}));
                        if let Answer::Result(v) = answer(&o, id) {
                            st.eval(!v.is_null());
                            let mut und = 0;
                            for (k, d) in check_result(s, others, &sp.tm, lg, m2, &t, &v, &mut und) {
                                on_bad(m, &t, &format!("{k}(via {m2})"), &d);
                            }
                            st.undecided += und;
                        }
                    }
                }
            }
        }
    }
    for (c, n) in classes {
        *st.outcomes.entry(c).or_insert(0) += n;
    }
}

thread_local! {
    static OTHERS: std::cell::RefCell<Option<Others>> = const { std::cell::RefCell::new(None) };
}
fn with_others<R>(f: impl FnOnce(&mut Others) -> R) -> R {
    OTHERS.with(|c| {
        let mut o = c.borrow_mut().take().unwrap_or_else(Others::new);
        let r = f(&mut o);
        *c.borrow_mut() = Some(o);
        r
    })
}

fn first_with_sig(s: &mut Srv, lg: &Legend, text: &str, method: &str, sig: &str) -> Option<(Target, String)> {
    let o = s.set_doc(text);
    if !o.panics.is_empty() {
        return None;
    }
    let mut found = None;
    let mut scratch = Stats::default();
    with_others(|others| {
        sweep_doc(s, others, lg, text, Some(method), &mut scratch, |m, t, k, d| {
            if found.is_none() && format!("{k}:{m}") == sig {
                found = Some((t.clone(), d.to_string()));
            }
        })
    });
    found
}

fn minimise(std: bool, lg: &Legend, text: &str, method: &str, sig: &str) -> Option<Violation> {
    let pred = |std: bool, t: &str| -> bool {
        cached(format!("{sig}\u{1}{std}\u{1}{t}"), || with_srv(std, |s| first_with_sig(s, lg, t, method, sig).is_some()))
    };
    // one root cause = one witness: the least document of the alphabet (empty, then every single Σ1 fragment in
    // order) that shows the same signature is the witness, whichever larger document exposed it first
    let canonical = std::iter::once("").chain(SIGMA1.iter().copied()).find(|c| c.len() < text.len() && pred(false, c));
    let (text, std) = match canonical {
        Some(c) => (c, false),
        None => (text, std),
    };
    let mut min = minimise_doc(text, &|t| pred(std, t));
    let mut std = std;
    if std && pred(false, &min) {
        std = false;
        min = minimise_doc(&min, &|t| pred(false, t));
    }
    let mut fresh = Srv::new(std);
    let (t, d) = first_with_sig(&mut fresh, lg, &min, method, sig)?;
    Some(Violation {
        signature: sig.to_string(),
        witness: json!({"text": min, "method": method, "at": t.to_json(), "std": std}),
        detail: format!("{method} at {} on {:?}: {d}", t.to_json(), min),
    })
}

pub fn check_doc(text: &str, std: bool, lg: &Legend, st: &mut Stats, origin: &str, sample: bool) {
    let mut failing: BTreeMap<(String, String), ()> = BTreeMap::new();
    let mut installed = true;
    with_srv(std, |s| {
        let o = s.set_doc(text);
        if !o.panics.is_empty() || o.dispatch_panic {
            installed = false;
            s.docs_set = u64::MAX; // never reuse this server
            return;
        }
        with_others(|others| {
            sweep_doc(s, others, lg, text, None, st, |m, _t, k, _d| {
                failing.entry((m.to_string(), format!("{k}:{m}")), ).or_insert(());
            })
        });
        if sample {
            st.sample(|| json!({"source": origin, "text": text}));
        }
    });
    if !installed {
        st.undecided += 1;
        st.outcome("document-not-installed(panic in didOpen/didChange)");
        return;
    }
    for ((m, sig), _) in failing {
        match minimise(std, lg, text, &m, &sig) {
            Some(v) => st.violation(v),
            None => {
                st.undecided += 1;
                st.outcome("unstable-defect");
            }
        }
    }
}

pub fn replay(w: &Value) -> Option<Violation> {
    let text = w["text"].as_str()?;
    let method = w["method"].as_str()?;
    let std = w["std"].as_bool().unwrap_or(false);
    let want = Target::from_json(&w["at"])?;
    let lg = legend();
    let mut s = Srv::new(std);
    s.set_doc(text);
    let mut found = None;
    let mut scratch = Stats::default();
    let mut others = Others::new();
    sweep_doc(&mut s, &mut others, &lg, text, Some(method), &mut scratch, |m, t, k, d| {
        if found.is_none() && *t == want {
            found = Some(Violation { signature: format!("{k}:{m}"), witness: w.clone(), detail: d.to_string() });
        }
    });
    found
}

pub fn run(args: &Args) -> ! {
    install_panic_hook();
    if let Some(w) = args.replay_witness() {
        let w = if w.get("witness").is_some() { w["witness"].clone() } else { w };
        finish_replay(replay(&w), "C26");
    }
    let dl = args.deadline();
    let mut rep = Report::new("C26", "exploration");
    let mut all = Stats::default();
    let pl = crate::c25::plan(args.tier);
    let lg = legend();
    let mut phases_done = Vec::new();
    let mut exhaustive = true;

    let ex = std_excerpts(pl.std_excerpt_max);
    let (st, ok) = par_range(ex.len() as u64, args.threads, &dl, |i, st| {
        check_doc(&ex[i as usize], true, &lg, st, "std-excerpt", i % 40 == 1);
    });
    all.merge(st);
    exhaustive &= ok;
    phases_done.push(json!({"source": "std-excerpts", "documents": ex.len(), "completed": ok}));
    for (name, sigma, min_k, max_k, std) in &pl.phases {
        let (st, done) = par_words(sigma.len(), *min_k, *max_k, args.threads, &dl, |w, st| {
            let text = phase_text(name, sigma, w);
            let sample = w.len() >= 2 && w[0] == 1 && w[1] == 0;
            check_doc(&text, *std, &lg, st, name, sample);
        });
        all.merge(st);
        phases_done.push(json!({"source": name, "alphabet": sigma.len(), "k_from": min_k, "k_target": max_k, "k_completed": done, "std_loaded": std}));
        if done != Some(*max_k) {
            exhaustive = false;
            break;
        }
    }
    let foreign = FOREIGN_PANICS.lock().unwrap().clone();
    if !foreign.is_empty() {
        rep.machinery_error = Some(format!("panic on a non-worker thread: {}", foreign[0]));
    }
    rep.rule = format!(
        "every document of the listed sources (std-library excerpts ≤{} bytes; all words of the fragment alphabets up to the stated k) × {} structure-returning requests (document-level once; position-taking at every token boundary; range-taking on the ordered pairs of first/middle/last token boundary; code actions with the document's own pulled diagnostics as context; call-hierarchy items followed into incoming/outgoing calls), each through the real on_request_handler; oracle: the seven structural clauses of the statement checked on the JSON result against an independent text model (legend has {} types / {} modifiers); non-trivial = a non-null result was checked",
        pl.std_excerpt_max,
        FORMS.len(),
        lg.types,
        lg.modifiers
    );
    rep.exhaustive = exhaustive;
    rep.bounds = json!({"phases": phases_done, "requests": FORMS.iter().map(|f| f.0).collect::<Vec<_>>(), "wall_cap_s": args.wall_cap_s, "wall_cap_hit": dl.was_hit()});
    rep.assumptions = vec![
        "a position is 'inside' when its line exists (lines end at \\n, \\r\\n or a lone \\r) and its character ≤ the line's byte length (the most generous of the LSP encodings) — encoding questions are C23's".into(),
        "requests that produce no usable result (error, no response, panic) are C24/C25's subject and counted undecided here".into(),
        "one ServerContext per worker thread serves up to 256 documents; a violating case is re-executed on a fresh ServerContext".into(),
        "positions in documents the server does not hold are counted undecided".into(),
    ];
    if all.nontrivial == 0 && rep.machinery_error.is_none() {
        rep.machinery_error = Some("vacuous run: not a single request produced a result that could be judged".into());
    }
    rep.finish(args, all)
}
