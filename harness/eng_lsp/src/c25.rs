//! C25 — position-based requests handle any position without crashing.
//!
//! Documents: every word of Σ1^≤k1, Σ2^≤k2 (valid and invalid Lua), Σ1core^kc, std-library excerpts.
//! Positions: every token boundary; every line with character ∈ {0, len, len+1, 10^6}; lines
//! {count, count+1, 2^31} × character {0,1}. Ranges: all ordered pairs of a reduced position set.
//! Requests: the 17 position/range-taking requests of DESIGN + colorPresentation + semanticTokens, all through `on_request_handler`.
//! Oracle: a response carrying `result` (possibly null) arrives for the id; no panic is recorded by
//! the panic hook while the request is served; the runtime becomes quiescent.
use crate::docs::*;
use crate::srv::*;
use crate::sweep::*;
use serde_json::{Value, json};
use std::collections::BTreeMap;
use vcore::*;

/// Some(signature) when the request violates the oracle
pub fn judge(method: &str, id: i32, o: &Outcome) -> (Option<String>, &'static str) {
    if o.dispatch_panic {
        return (Some(format!("dispatch-panic:{method}:{}", o.panics.first().map(|p| site_of(p)).unwrap_or_default())), "dispatch-panic");
    }
    if let Some(p) = o.panics.first() {
        return (Some(format!("panic:{method}:{}", site_of(p))), "panic");
    }
    if !o.quiescent {
        return (Some(format!("hang:{method}")), "hang");
    }
    match answer(o, id) {
        Answer::Result(v) => (None, if v.is_null() { "null" } else { "value" }),
        Answer::None => (Some(format!("no-response:{method}")), "no-response"),
        Answer::Error(code, _) => (Some(format!("error-response:{method}:{code}")), "error-response"),
        Answer::Malformed(_) | Answer::Multiple(_) => (Some(format!("bad-response:{method}")), "bad-response"),
    }
}

pub fn run_target(s: &mut Srv, method: &str, t: &Target) -> (Option<String>, &'static str, Outcome, i32) {
    let (id, o) = s.request(method, t.params(method));
    let (sig, class) = judge(method, id, &o);
    (sig, class, o, id)
}

/// canonical search: the first target (position form before range form) of `method` on `text`
/// that fails with `sig`
fn first_failing(s: &mut Srv, text: &str, method: &str, sig: &str) -> Option<Target> {
    let o = s.set_doc(text);
    if !o.panics.is_empty() {
        return None;
    }
    let tm = TextModel::new(text);
    let ps = position_set(text, &tm);
    let rps = range_position_set(text, &tm);
    for (m, as_range) in request_forms() {
        if m != method {
            continue;
        }
        for t in targets(m, &ps, &rps, as_range) {
            let (s2, _, _, _) = run_target(s, m, &t);
            if s2.as_deref() == Some(sig) {
                return Some(t);
            }
        }
    }
    None
}

fn minimise(std: bool, text: &str, method: &str, sig: &str) -> Option<Violation> {
    let pred = |std: bool, t: &str| -> bool {
        cached(format!("{sig}\u{1}{std}\u{1}{t}"), || with_srv(std, |s| first_failing(s, t, method, sig).is_some()))
    };
    let mut min = minimise_doc(text, &|t| pred(std, t));
    // prefer the server without the std library if the failure does not need it
    let mut std = std;
    if std && pred(false, &min) {
        std = false;
        min = minimise_doc(&min, &|t| pred(false, t));
    }
    // determinism before verdict: a fresh server must fail identically
    let mut fresh = Srv::new(std);
    let t = first_failing(&mut fresh, &min, method, sig)?;
    let (s2, _, o, id) = run_target(&mut fresh, method, &t);
    if s2.as_deref() != Some(sig) {
        return None;
    }
    Some(Violation {
        signature: sig.to_string(),
        witness: json!({"text": min, "method": method, "at": t.to_json(), "std": std}),
        detail: format!("{method} at {} on {:?}: {}; panics: {:?}; answer: {:?}", t.to_json(), min, sig, o.panics, answer(&o, id)),
    })
}

pub fn check_doc(text: &str, std: bool, st: &mut Stats, origin: &str, sample: bool) {
    let mut failing: BTreeMap<(String, String), Target> = BTreeMap::new();
    let mut setdoc_panic = false;
    with_srv(std, |s| {
        let o = s.set_doc(text);
        if !o.panics.is_empty() || o.dispatch_panic {
            setdoc_panic = true;
            s.docs_set = u64::MAX; // never reuse this server
            return;
        }
        let tm = TextModel::new(text);
        let ps = position_set(text, &tm);
        let rps = range_position_set(text, &tm);
        let mut classes: BTreeMap<String, u64> = BTreeMap::new();
        for (m, as_range) in request_forms() {
            for t in targets(m, &ps, &rps, as_range) {
                let (sig, class, _, _) = run_target(s, m, &t);
                st.eval(!text.is_empty());
                *classes.entry(format!("{}:{class}", m.trim_start_matches("textDocument/"))).or_insert(0) += 1;
                if let Some(sig) = sig {
                    failing.entry((m.to_string(), sig)).or_insert(t);
                }
            }
        }
        for (c, n) in classes {
            *st.outcomes.entry(c).or_insert(0) += n;
        }
        if sample {
            st.sample(|| json!({"source": origin, "text": text, "positions": ps.len(), "range_positions": rps.len()}));
        }
    });
    if setdoc_panic {
        // the document could not even be installed (analysis panic: C12's subject) — not judged here
        st.undecided += 1;
        st.outcome("document-not-installed(panic in didOpen/didChange)");
        return;
    }
    for ((m, sig), _) in failing {
        match minimise(std, text, &m, &sig) {
            Some(v) => st.violation(v),
            None => {
                st.undecided += 1;
                st.outcome("unstable-failure");
            }
        }
    }
}

pub fn replay(w: &Value) -> Option<Violation> {
    let text = w["text"].as_str()?;
    let method = w["method"].as_str()?;
    let t = Target::from_json(&w["at"])?;
    let std = w["std"].as_bool().unwrap_or(false);
    let mut s = Srv::new(std);
    s.set_doc(text);
    let (sig, _, o, id) = run_target(&mut s, method, &t);
    sig.map(|sig| Violation { signature: sig.clone(), witness: w.clone(), detail: format!("{sig}; panics: {:?}; answer: {:?}", o.panics, answer(&o, id)) })
}

pub struct Plan {
    pub phases: Vec<(&'static str, &'static [&'static str], usize, usize, bool)>, // name, alphabet, min_k, max_k, std
    pub std_excerpt_max: usize,
}

pub fn plan(tier: Tier) -> Plan {
    match tier {
        Tier::Quick => Plan {
            phases: vec![("Σ1", SIGMA1, 0, 2, false), ("Σ2", SIGMA2, 1, 1, true), ("Σ3", SIGMA3, 0, 1, true), ("Σ1core", SIGMA1_CORE, 3, 3, false), ("Σ2", SIGMA2, 2, 2, true), ("Σ3", SIGMA3, 2, 2, true)],
            std_excerpt_max: 300,
        },
        Tier::Thorough => Plan {
            phases: vec![("Σ1", SIGMA1, 0, 2, false), ("Σ2", SIGMA2, 1, 2, true), ("Σ3", SIGMA3, 0, 2, true), ("Σ1core", SIGMA1_CORE, 3, 4, false), ("Σ1", SIGMA1, 3, 3, false), ("Σ3", SIGMA3, 3, 3, true)],
            std_excerpt_max: 1500,
        },
    }
}

pub fn run(args: &Args) -> ! {
    install_panic_hook();
    if let Some(w) = args.replay_witness() {
        let w = if w.get("witness").is_some() { w["witness"].clone() } else { w };
        finish_replay(replay(&w), "C25");
    }
    let dl = args.deadline();
    let mut rep = Report::new("C25", "exploration");
    let mut all = Stats::default();
    let pl = plan(args.tier);
    let mut phases_done = Vec::new();
    let mut exhaustive = true;

    // std excerpts first (real, valid Lua with doc comments), with the std library loaded
    let ex = std_excerpts(pl.std_excerpt_max);
    let (st, ok) = par_range(ex.len() as u64, args.threads, &dl, |i, st| {
        check_doc(&ex[i as usize], true, st, "std-excerpt", i % 40 == 1);
    });
    all.merge(st);
    exhaustive &= ok;
    phases_done.push(json!({"source": "std-excerpts", "documents": ex.len(), "completed": ok}));

    for (name, sigma, min_k, max_k, std) in &pl.phases {
        let (st, done) = par_words(sigma.len(), *min_k, *max_k, args.threads, &dl, |w, st| {
            let text = phase_text(name, sigma, w);
            let sample = w.len() >= 2 && w[0] == 1 && w[1] == 0;
            check_doc(&text, *std, st, name, sample);
        });
        all.merge(st);
        phases_done.push(json!({"source": name, "alphabet": sigma.len(), "k_from": min_k, "k_target": max_k, "k_completed": done, "std_loaded": std}));
        if done != Some(*max_k) {
            exhaustive = false;
            break;
        }
    }
    let foreign = FOREIGN_PANICS.lock().unwrap().clone();
    if !foreign.is_empty() {
        rep.machinery_error = Some(format!("panic on a non-worker thread: {}", foreign[0]));
    }
    rep.rule = format!(
        "every document of the listed sources (std-library excerpts ≤{} bytes; all words of the fragment alphabets up to the stated k) × every position of its position set (every token boundary; every line × character {{0,len,len+1,10^6}}; lines {{count,count+1,2^31}} × character {{0,1}}) × 13 position-taking requests, × all ordered pairs of a ≤6-element reduced position set × 5 range-taking requests, + semanticTokens/full, each sent through the real on_request_handler; oracle: exactly one response with a `result` member (null allowed), no panic recorded by the process-wide panic hook, runtime quiescent; non-trivial = request on a non-empty document",
        pl.std_excerpt_max
    );
    rep.exhaustive = exhaustive;
    rep.bounds = json!({"phases": phases_done, "position_methods": POSITION_METHODS, "range_methods": RANGE_METHODS, "wall_cap_s": args.wall_cap_s, "wall_cap_hit": dl.was_hit()});
    rep.assumptions = vec![
        "one ServerContext per worker thread serves up to 256 documents (full-text didChange); a violating case is re-executed on a fresh ServerContext and must fail identically".into(),
        "documents that cannot be installed because didOpen/didChange itself panics are counted undecided (C12's subject)".into(),
        "client capabilities are one fixed set (pull diagnostics, hierarchical symbols, snippets)".into(),
    ];
    if all.nontrivial == 0 && rep.machinery_error.is_none() {
        rep.machinery_error = Some("vacuous run: not a single request produced a result that could be judged".into());
    }
    rep.finish(args, all)
}
