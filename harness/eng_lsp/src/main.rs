mod c14;
mod c24;
mod c25;
mod c26;
mod docs;
mod methods;
mod srv;
mod sweep;

fn main() {
    let args = vcore::parse_args();
    match args.prop.as_str() {
        "C14" => c14::run(&args),
        "C24" => c24::run(&args),
        "C25" => c25::run(&args),
        "C26" => c26::run(&args),
        "BENCH" => bench(),
        "REQ" => {
            // ad-hoc: --text <escaped text> --method <m> --params <json with $URI> [--std 1]
            let text = args.extra.get("text").cloned().unwrap_or_default().replace("\\n", "\n").replace("\\r", "\r").replace("\\0", "\0");
            let mut s = srv::Srv::new(args.extra.get("std").is_some());
            s.set_doc(&text);
            let params: serde_json::Value = serde_json::from_str(&args.extra.get("params").cloned().unwrap_or("{}".into()).replace("$URI", srv::DOC_URI)).expect("params json");
            let (id, o) = s.request(args.extra.get("method").map(|x| x.as_str()).unwrap_or("textDocument/hover"), params);
            println!("{}", serde_json::to_string_pretty(&match srv::answer(&o, id) { srv::Answer::Result(v) => v, a => serde_json::json!(format!("{a:?}")) }).unwrap());
            println!("panics: {:?}", o.panics);
        }
        p => vcore::die(&format!("eng_lsp does not serve {p}")),
    }
}

fn bench() {
    use std::time::Instant;
    let t = Instant::now();
    let mut s = srv::Srv::new(false);
    println!("new(no std): {:?}", t.elapsed());
    let t = Instant::now();
    let o = s.set_doc("local a = 1\nprint(a)\n");
    println!("set_doc: {:?} {:?}", t.elapsed(), o);
    let ms = methods::methods();
    for m in &ms {
        let t = Instant::now();
        let (id, o) = s.request(m.name, (m.valid)(srv::DOC_URI, 0, 6));
        let a = srv::answer(&o, id);
        let txt = format!("{a:?}");
        println!("{:40} {:?} {} panics={:?} sreq={:?} notif={:?}", m.name, t.elapsed(), &txt[..txt.len().min(150)], o.panics, o.server_requests, o.notifications);
    }
    let t = Instant::now();
    for _ in 0..1000 { let _ = s.request("textDocument/hover", (ms[0].valid)(srv::DOC_URI, 0, 6)); }
    println!("1000 hovers: {:?}", t.elapsed());
    let t = Instant::now();
    for _ in 0..1000 { let mut s2 = srv::Srv::new(false); s2.set_doc("local a = 1\n"); }
    println!("1000 fresh servers + doc: {:?}", t.elapsed());
    let t = Instant::now();
    let mut s3 = srv::Srv::new(true);
    println!("new(std): {:?}", t.elapsed());
    s3.set_doc("local a = 1\nprint(a)\n");
    let t = Instant::now();
    for _ in 0..100 { let _ = s3.request("textDocument/completion", (ms[12].valid)(srv::DOC_URI, 1, 0)); }
    println!("100 completions with std: {:?}", t.elapsed());
    let (id, o) = s3.request("textDocument/selectionRange", serde_json::json!({"textDocument": {"uri": srv::DOC_URI}, "positions": [{"line": 2, "character": 5}]}));
    println!("selrange eof: {:?} {:?}", srv::answer(&o, id), o.panics);
    let (id, o) = s3.request("textDocument/hover", serde_json::json!(null));
    println!("hover null: {:?} {:?}", srv::answer(&o, id), o);
    for n in 1..=3 {
        println!("core programs n={n}: {}", c14::programs(&c14::core_grammar(), n).len());
        if n < 3 { println!("full programs n={n}: {}", c14::programs(&c14::full_grammar(), n).len()); }
    }
}
