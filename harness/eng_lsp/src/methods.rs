//! The 38 request methods registered in `on_request_handler` (read off request_handler.rs), with a
//! valid params value for each and a deserialisability test that uses the very `Params` type the
//! dispatch macro extracts.
use lsp_types::request::*;
use serde::Deserialize;
use serde_json::{Value, json};

pub struct Method {
    pub name: &'static str,
    /// (uri, line, character) -> valid params
    pub valid: fn(&str, u32, u32) -> Value,
    /// does `params` deserialise into the handler's Params type?
    pub accepts: fn(&Value) -> bool,
    /// the valid params contain a position / range that `valid` places at (line, character)
    pub positional: bool,
}

fn acc<R: Request>(v: &Value) -> bool {
    serde_json::from_value::<R::Params>(v.clone()).is_ok()
}

// mirror of the params of the four emmy/* custom requests (crates/emmylua_ls/src/handlers/emmy_*/…_request.rs)
#[derive(Deserialize)]
#[allow(dead_code)]
struct UriParams {
    uri: String,
}
#[derive(Deserialize)]
#[allow(dead_code)]
struct DataParams {
    data: String,
}
fn acc_uri(v: &Value) -> bool {
    serde_json::from_value::<UriParams>(v.clone()).is_ok()
}
fn acc_data(v: &Value) -> bool {
    serde_json::from_value::<DataParams>(v.clone()).is_ok()
}

fn pos(l: u32, c: u32) -> Value {
    json!({"line": l, "character": c})
}
fn rng(l: u32, c: u32) -> Value {
    json!({"start": pos(l, c), "end": pos(l, c + 1)})
}
fn td(uri: &str) -> Value {
    json!({"uri": uri})
}
fn tdp(uri: &str, l: u32, c: u32) -> Value {
    json!({"textDocument": td(uri), "position": pos(l, c)})
}
fn fmt_opts() -> Value {
    json!({"tabSize": 4, "insertSpaces": true})
}
fn ch_item(uri: &str, l: u32, c: u32) -> Value {
    json!({"name": "a", "kind": 12, "uri": uri, "range": rng(l, c), "selectionRange": rng(l, c)})
}

macro_rules! m {
    ($ty:ty, $pos:expr, $valid:expr) => {
        Method { name: <$ty as Request>::METHOD, valid: $valid, accepts: acc::<$ty>, positional: $pos }
    };
}

pub fn methods() -> Vec<Method> {
    vec![
        m!(HoverRequest, true, |u, l, c| tdp(u, l, c)),
        m!(DocumentSymbolRequest, false, |u, _, _| json!({"textDocument": td(u)})),
        m!(FoldingRangeRequest, false, |u, _, _| json!({"textDocument": td(u)})),
        m!(DocumentColor, false, |u, _, _| json!({"textDocument": td(u)})),
        m!(ColorPresentationRequest, true, |u, l, c| json!({"textDocument": td(u),
            "color": {"red": 1.0, "green": 0.5, "blue": 0.0, "alpha": 1.0}, "range": rng(l, c)})),
        m!(DocumentLinkRequest, false, |u, _, _| json!({"textDocument": td(u)})),
        m!(DocumentLinkResolve, false, |u, l, c| json!({"range": rng(l, c), "target": u})),
        Method { name: "emmy/annotator", valid: |u, _, _| json!({"uri": u}), accepts: acc_uri, positional: false },
        Method { name: "emmy/gutter", valid: |u, _, _| json!({"uri": u}), accepts: acc_uri, positional: false },
        Method { name: "emmy/gutter/detail", valid: |_, _, _| json!({"data": "x"}), accepts: acc_data, positional: false },
        Method { name: "emmy/syntaxTree", valid: |u, _, _| json!({"uri": u}), accepts: acc_uri, positional: false },
        m!(SelectionRangeRequest, true, |u, l, c| json!({"textDocument": td(u), "positions": [pos(l, c)]})),
        m!(Completion, true, |u, l, c| tdp(u, l, c)),
        m!(ResolveCompletionItem, false, |_, _, _| json!({"label": "a"})),
        m!(InlayHintRequest, true, |u, l, c| json!({"textDocument": td(u), "range": rng(l, c)})),
        m!(InlayHintResolveRequest, false, |_, l, c| json!({"position": pos(l, c), "label": "x"})),
        m!(GotoDefinition, true, |u, l, c| tdp(u, l, c)),
        m!(GotoImplementation, true, |u, l, c| tdp(u, l, c)),
        m!(References, true, |u, l, c| json!({"textDocument": td(u), "position": pos(l, c), "context": {"includeDeclaration": true}})),
        m!(Rename, true, |u, l, c| json!({"textDocument": td(u), "position": pos(l, c), "newName": "zz"})),
        m!(PrepareRenameRequest, true, |u, l, c| tdp(u, l, c)),
        m!(CodeLensRequest, false, |u, _, _| json!({"textDocument": td(u)})),
        m!(CodeLensResolve, false, |_, l, c| json!({"range": rng(l, c)})),
        m!(SignatureHelpRequest, true, |u, l, c| tdp(u, l, c)),
        m!(DocumentHighlightRequest, true, |u, l, c| tdp(u, l, c)),
        m!(SemanticTokensFullRequest, false, |u, _, _| json!({"textDocument": td(u)})),
        m!(ExecuteCommand, false, |_, _, _| json!({"command": "verif.noop", "arguments": []})),
        m!(CodeActionRequest, true, |u, l, c| json!({"textDocument": td(u), "range": rng(l, c), "context": {"diagnostics": []}})),
        m!(InlineValueRequest, true, |u, l, c| json!({"textDocument": td(u), "range": rng(l, c),
            "context": {"frameId": 0, "stoppedLocation": rng(l, c)}})),
        m!(WorkspaceSymbolRequest, false, |_, _, _| json!({"query": "a"})),
        m!(Formatting, false, |u, _, _| json!({"textDocument": td(u), "options": fmt_opts()})),
        m!(RangeFormatting, true, |u, l, c| json!({"textDocument": td(u), "range": rng(l, c), "options": fmt_opts()})),
        m!(OnTypeFormatting, true, |u, l, c| json!({"textDocument": td(u), "position": pos(l, c), "ch": "\n", "options": fmt_opts()})),
        m!(CallHierarchyPrepare, true, |u, l, c| tdp(u, l, c)),
        m!(CallHierarchyIncomingCalls, false, |u, l, c| json!({"item": ch_item(u, l, c)})),
        m!(CallHierarchyOutgoingCalls, false, |u, l, c| json!({"item": ch_item(u, l, c)})),
        m!(DocumentDiagnosticRequest, false, |u, _, _| json!({"textDocument": td(u)})),
        m!(WorkspaceDiagnosticRequest, false, |_, _, _| json!({"previousResultIds": []})),
    ]
}

/// every key path of a JSON object tree (arrays are not descended)
pub fn key_paths(v: &Value) -> Vec<Vec<String>> {
    fn rec(v: &Value, cur: &mut Vec<String>, out: &mut Vec<Vec<String>>) {
        if let Value::Object(m) = v {
            for (k, c) in m {
                cur.push(k.clone());
                out.push(cur.clone());
                rec(c, cur, out);
                cur.pop();
            }
        }
    }
    let mut out = Vec::new();
    rec(v, &mut Vec::new(), &mut out);
    out
}

pub fn remove_path(v: &mut Value, path: &[String]) {
    if path.len() == 1 {
        if let Value::Object(m) = v {
            m.remove(&path[0]);
        }
    } else if let Some(c) = v.get_mut(&path[0]) {
        remove_path(c, &path[1..]);
    }
}

/// a value of a different JSON type than `v`
pub fn other_type(v: &Value) -> Value {
    match v {
        Value::String(_) => json!(7),
        Value::Number(_) => json!("x"),
        Value::Bool(_) => json!("x"),
        Value::Object(_) => json!([]),
        Value::Array(_) => json!({}),
        Value::Null => json!(7),
    }
}

pub fn set_path(v: &mut Value, path: &[String], new: Value) {
    if path.len() == 1 {
        if let Value::Object(m) = v {
            m.insert(path[0].clone(), new);
        }
    } else if let Some(c) = v.get_mut(&path[0]) {
        set_path(c, &path[1..], new);
    }
}
