//! Oracles of C08/C09/C10/C11 on one case, the fresh-analysis cache and the case minimiser.
use emmylua_code_analysis::{FileId, verif_hooks};
use std::collections::{BTreeMap, BTreeSet, HashMap};
use std::sync::Mutex;

use crate::dump::{Dump, Snapshot, dump, grown, snapshot};
use crate::world::{Built, Case, Model, Op, build, fresh, uri_of};

#[derive(Clone, Debug, PartialEq, Eq, PartialOrd, Ord)]
pub struct Finding {
    /// stable class, e.g. "dump:hover", "grow:module.module_nodes", "refs:module.module_name_to_file_ids.ids"
    pub class: String,
    pub detail: String,
}

#[derive(Default, Clone, Debug)]
pub struct Verdict {
    pub findings: Vec<Finding>,
    /// the statement does not decide this case (counted, not judged)
    pub undecided: Option<String>,
    /// the fresh reference itself is unstable (counted under C11, not judged here)
    pub unstable: bool,
    /// canonical key of the state reached (abstract state + dump hash + size report)
    pub key: String,
    pub classes: Vec<String>,
}

impl Verdict {
    pub fn has(&self, class: &str) -> bool {
        self.findings.iter().any(|f| f.class == class)
    }
}

// ------------------------------------------------------------------ fresh cache

#[derive(Clone)]
pub struct FreshRef {
    pub dump: Dump,
    pub stable: bool,
}

/// fresh(abstract state) is a pure function of the abstract state; computed three times (fresh
/// hasher state each time) and cached. `stable=false` when the three disagree (DESIGN §3.4).
#[derive(Default)]
pub struct FreshCache {
    map: Mutex<HashMap<String, FreshRef>>,
    pub computed: std::sync::atomic::AtomicU64,
}

pub fn texts_key(case: &Case, model: &Model) -> String {
    // the cache is shared between cases of one universe; key on the actual contents
    let mut s = String::new();
    for (f, v) in model.live() {
        s.push_str(&format!("{f}#{:x};", vcore::fnv(case.text(&f, v).as_bytes())));
    }
    // the dump probes every module name derivable from the universe's paths
    s.push_str(&format!("probes={:?};", case.texts.keys().collect::<Vec<_>>()));
    s.push_str(&format!("cfg={}/{}", case.configs.first().map(|c| c.to_string()).unwrap_or_default(), case.configs.get(model.config).map(|c| c.to_string()).unwrap_or_default()));
    s
}

impl FreshCache {
    pub fn get(&self, case: &Case, model: &Model, runs: usize) -> FreshRef {
        let key = texts_key(case, model);
        if let Some(r) = self.map.lock().unwrap().get(&key) {
            return r.clone();
        }
        let r = compute_fresh(case, model, runs);
        self.computed.fetch_add(1, std::sync::atomic::Ordering::Relaxed);
        self.map.lock().unwrap().insert(key, r.clone());
        r
    }
}

pub fn compute_fresh(case: &Case, model: &Model, runs: usize) -> FreshRef {
    let first = dump(&fresh(case, model, true), case);
    let mut stable = true;
    for _ in 1..runs {
        if dump(&fresh(case, model, true), case) != first {
            stable = false;
        }
    }
    FreshRef { dump: first, stable }
}

fn key_of(model: &Model, snap: &Snapshot) -> String {
    format!("{}|{:016x}|{:016x}", model.abstract_key(), snap.dump.hash(), crate::dump::sizes_hash(&snap.sizes))
}

fn dump_findings(prefix: &str, expected: &Dump, got: &Dump, out: &mut Vec<Finding>) {
    for k in expected.diff_kinds(got) {
        out.push(Finding { class: format!("{prefix}:{k}"), detail: expected.first_diff(got, Some(&k)) });
    }
}

// ------------------------------------------------------------------ C08

pub fn c08_valid(case: &Case) -> bool {
    let marks = case.ops.iter().filter(|o| matches!(o, Op::Mark)).count();
    if marks != 1 {
        return false;
    }
    let mi = case.ops.iter().position(|o| matches!(o, Op::Mark)).unwrap();
    let (pre, post) = (&case.ops[..mi], &case.ops[mi + 1..]);
    if pre.is_empty() || post.is_empty() {
        return false;
    }
    // S0 is consistent: right after a full analysis (first load into an empty analysis) or a reindex
    let consistent = matches!(pre.last(), Some(Op::Reindex)) || (pre.len() == 1 && matches!(pre[0], Op::Batch { .. } | Op::Set { .. }));
    if !consistent {
        return false;
    }
    // the suffix only re-submits or edits content (no removals, no config change, no reindex)
    for op in post {
        match op {
            Op::Set { .. } => {}
            Op::Batch { items, .. } if items.iter().all(|(_, v)| v.is_some()) => {}
            _ => return false,
        }
    }
    let m0 = Model::of(pre);
    let m1 = Model::of(&case.ops);
    // no file may be introduced by the suffix, and every file is back at its S0 content
    m0.live() == m1.live() && m0.files.len() == m1.files.len() && m0.config == m1.config
}

pub fn c08_check(case: &Case, cache: Option<&FreshCache>) -> Verdict {
    let b = build(case);
    let mut v = Verdict::default();
    let Some((s0, m0)) = &b.mark else {
        v.undecided = Some("no mark".into());
        return v;
    };
    let s1 = snapshot(&b.an, case);
    v.key = key_of(&b.model, &s1);
    if let Some(c) = cache {
        if !c.get(case, m0, 3).stable {
            v.unstable = true;
            return v;
        }
    }
    dump_findings("dump", &s0.dump, &s1.dump, &mut v.findings);
    for (label, before, after) in grown(&s0.sizes, &s1.sizes) {
        v.findings.push(Finding { class: format!("grow:{label}"), detail: format!("{label}: {before} -> {after}") });
    }
    v
}

// ------------------------------------------------------------------ C09

pub fn c09_valid(case: &Case) -> bool {
    !case.ops.is_empty() && !case.ops.iter().any(|o| matches!(o, Op::Mark))
}

/// files whose text parses differently under the two configs (then `reindex`, which does not
/// re-parse, cannot be compared with a fresh analysis: the statement does not say it re-parses)
fn stale_parse(case: &Case, model: &Model) -> bool {
    let stale = model.parsed_under_other_config();
    if stale.is_empty() {
        return false;
    }
    let cur = case.config(model.config);
    for f in stale {
        let (_, v, c) = model.files[&f];
        let Some(v) = v else { continue };
        let old = case.config(c);
        if old.runtime.version != cur.runtime.version || format!("{:?}", old.runtime.nonstandard_symbol) != format!("{:?}", cur.runtime.nonstandard_symbol) {
            let text = case.text(&f, v);
            let e = |cfg: &emmylua_code_analysis::Emmyrc| {
                let mut nc = rowan::NodeCache::default();
                let t = emmylua_parser::LuaParser::parse(text, cfg.get_parse_config(&mut nc));
                format!("{:?}|{:?}", t.get_red_root(), t.get_errors().len())
            };
            if e(&old) != e(&cur) {
                return true;
            }
        }
    }
    false
}

pub fn c09_check(case: &Case, cache: Option<&FreshCache>) -> Verdict {
    let mut v = Verdict::default();
    let mut b = build(case);
    // key of the state the history reaches (before the reindex): used by the search to merge states
    let pre = snapshot(&b.an, case);
    v.key = key_of(&b.model, &pre);
    b.an.reindex();
    let got = snapshot(&b.an, case);
    if stale_parse(case, &b.model) {
        v.undecided = Some("reindex-keeps-parse-of-older-config".into());
        return v;
    }
    let r = match cache {
        Some(c) => c.get(case, &b.model, 3),
        None => crate::check::compute_fresh(case, &b.model, 1),
    };
    if !r.stable {
        v.unstable = true;
        return v;
    }
    dump_findings("dump", &r.dump, &got.dump, &mut v.findings);
    for d in &got.tree_defects {
        v.classes.push(format!("tree-defect-after-reindex:{d}"));
    }
    v
}

// ------------------------------------------------------------------ C10

pub fn c10_valid(case: &Case) -> bool {
    let m = Model::of(&case.ops);
    !case.ops.iter().any(|o| matches!(o, Op::Mark | Op::Config { .. })) && !m.gone.is_empty()
}

/// real file ids of the files a removal op is about to take away
fn real_ids(b: &Built, files: &[&str]) -> Vec<(String, Option<FileId>)> {
    files.iter().map(|f| (f.to_string(), b.an.get_file_id(&uri_of(f)))).collect()
}

/// index maps in which an entry for a removed file is not a trace *of that file*
const C10_REFS_NOT_JUDGED: &[&str] = &[
    // a live file's own record "I required file N when I was analysed"
    "dependency.dependencies.edges_to",
];
/// update(None) keeps the path <-> id registration by design (the slot is reused on re-open)
const C10_CLOSE_KEEPS: &[&str] = &["vfs.file_id_map", "vfs.file_path_map"];

pub fn c10_check(case: &Case, cache: Option<&FreshCache>) -> Verdict {
    let mut v = Verdict::default();
    // replay by hand so that the real ids of removed files can be recorded
    let mut b = Built { an: crate::world::new_analysis(case.config(0), true, 0), model: Model::default(), mark: None, seen: vec![] };
    let mut gone: Vec<(String, FileId, bool)> = Vec::new();
    for op in &case.ops {
        verif_hooks::clear_orders();
        verif_hooks::set_canonical(true);
        let removed: Vec<(String, Option<FileId>, bool)> = match op {
            Op::Remove { f } => real_ids(&b, &[f.as_str()]).into_iter().map(|(f, id)| (f, id, true)).collect(),
            Op::Close { f } => real_ids(&b, &[f.as_str()]).into_iter().map(|(f, id)| (f, id, false)).collect(),
            Op::Batch { items, .. } => {
                let fs: Vec<&str> = items.iter().filter(|(_, v)| v.is_none()).map(|(f, _)| f.as_str()).collect();
                real_ids(&b, &fs).into_iter().map(|(f, id)| (f, id, false)).collect()
            }
            _ => vec![],
        };
        crate::world::apply_op(&mut b.an, case, op);
        b.model.apply(op);
        for (f, id, by_remove) in removed {
            if let Some(id) = id {
                gone.push((f, id, by_remove));
            }
        }
    }
    verif_hooks::clear_orders();
    let db = b.an.compilation.get_db();
    let live_ids: BTreeSet<u32> = db.get_vfs().get_all_file_ids().iter().map(|f| f.id).collect();
    gone.retain(|(_, id, _)| !live_ids.contains(&id.id));
    let got = snapshot(&b.an, case);
    v.key = key_of(&b.model, &got);
    if gone.is_empty() {
        v.undecided = Some("nothing removed".into());
        return v;
    }
    // (i) no path / dead id of a removed file anywhere in the dump
    let live_paths: BTreeSet<String> = b.model.live().into_iter().map(|(f, _)| f).collect();
    for (k, text) in &got.dump.sections {
        let kind = k.split('|').next().unwrap_or("");
        let mut hit = None;
        for line in text.lines() {
            if line.contains(crate::dump::DEAD) || gone.iter().any(|(f, _, _)| !live_paths.contains(f) && line.contains(f.as_str())) {
                hit = Some(line);
                break;
            }
        }
        if let Some(line) = hit {
            v.findings.push(Finding { class: format!("trace:{kind}"), detail: format!("[{k}] still mentions a removed file: `{}`", line.chars().take(200).collect::<String>()) });
        }
    }
    // (ii) no index entry mentions the removed id
    let mut labels: BTreeMap<String, String> = BTreeMap::new();
    for (f, id, by_remove) in &gone {
        for (label, n) in verif_hooks::file_refs_detail(db, *id) {
            if C10_REFS_NOT_JUDGED.contains(&label.as_str()) || (!*by_remove && C10_CLOSE_KEEPS.contains(&label.as_str())) {
                v.classes.push(format!("not-judged:{label}"));
                continue;
            }
            labels.entry(label.clone()).or_insert_with(|| format!("{label} holds {n} entr{} for removed {f}", if n == 1 { "y" } else { "ies" }));
        }
    }
    for (label, detail) in labels {
        v.findings.push(Finding { class: format!("refs:{label}"), detail });
    }
    // (iii) equals a fresh analysis of the remaining files
    let r = match cache {
        Some(c) => c.get(case, &b.model, 3),
        None => compute_fresh(case, &b.model, 1),
    };
    if !r.stable {
        v.unstable = true;
        v.findings.clear();
        return v;
    }
    dump_findings("dump", &r.dump, &got.dump, &mut v.findings);
    v
}

// ------------------------------------------------------------------ C11

pub fn c11_valid(case: &Case) -> bool {
    !case.ops.is_empty() && !case.ops.iter().any(|o| matches!(o, Op::Mark))
}

/// the same case with every seam order removed (identity at every seam)
pub fn identity_of(case: &Case) -> Case {
    let mut c = case.clone();
    c.seams.clear();
    for op in &mut c.ops {
        if let Op::Batch { order, rorder, .. } = op {
            *order = None;
            *rorder = None;
        }
    }
    c
}

pub fn c11_check(case: &Case) -> Verdict {
    let mut v = Verdict::default();
    let id = identity_of(case);
    let a = build(&id);
    let sa = snapshot(&a.an, case);
    let b = build(case);
    let sb = snapshot(&b.an, case);
    v.key = key_of(&b.model, &sb);
    // the identity run must itself be reproducible, otherwise nothing can be said about the seam
    let a2 = build(&id);
    if dump(&a2.an, case) != sa.dump {
        v.unstable = true;
        v.findings.push(Finding { class: "unseamed:rerun".into(), detail: sa.dump.first_diff(&dump(&a2.an, case), None) });
        return v;
    }
    dump_findings("order", &sa.dump, &sb.dump, &mut v.findings);
    v
}

// ------------------------------------------------------------------ minimiser

fn drop_file(case: &Case, f: &str) -> Case {
    let mut c = case.clone();
    c.texts.remove(f);
    let mut ops = Vec::new();
    for op in &case.ops {
        match op {
            Op::Set { f: g, .. } | Op::Close { f: g } | Op::Remove { f: g } if g == f => {}
            Op::Batch { items, order, rorder } => {
                let keep: Vec<usize> = (0..items.len()).filter(|i| items[*i].0 != f).collect();
                if keep.is_empty() {
                    continue;
                }
                if keep.len() == items.len() {
                    ops.push(op.clone());
                    continue;
                }
                // seam orders index the id-sorted batch (= item order in generated cases): renumber
                let remap = |o: &Option<Vec<usize>>| -> Option<Vec<usize>> {
                    let o = o.as_ref()?;
                    if o.len() != items.len() {
                        return None;
                    }
                    let v: Vec<usize> = o.iter().filter_map(|x| keep.iter().position(|k| k == x)).collect();
                    if v.windows(2).all(|w| w[0] < w[1]) { None } else { Some(v) }
                };
                ops.push(Op::Batch { items: keep.iter().map(|i| items[*i].clone()).collect(), order: remap(order), rorder: remap(rorder) });
            }
            o => ops.push(o.clone()),
        }
    }
    c.ops = ops;
    c
}

fn rename_file(case: &Case, from: &str, to: &str) -> Case {
    let mut c = case.clone();
    if let Some(t) = c.texts.remove(from) {
        c.texts.insert(to.to_string(), t);
    }
    let r = |f: &String| if f == from { to.to_string() } else { f.clone() };
    for op in &mut c.ops {
        match op {
            Op::Set { f, .. } | Op::Close { f } | Op::Remove { f } => *f = r(f),
            Op::Batch { items, .. } => {
                for it in items.iter_mut() {
                    it.0 = r(&it.0);
                }
            }
            _ => {}
        }
    }
    c
}

fn module_of(path: &str) -> String {
    let rel = path.split_once('/').map(|x| x.1).unwrap_or(path);
    let stem = rel.strip_suffix(".lua").unwrap_or(rel).replace('/', ".");
    stem.strip_suffix(".init").map(|s| s.to_string()).unwrap_or(stem)
}

/// exchange the roles of two files: paths in the history and `require("<module>")` strings in every text
fn swap_files(case: &Case, a: &str, b: &str) -> Case {
    let tmp = "main/__swap__.lua";
    let mut c = rename_file(&rename_file(&rename_file(case, a, tmp), b, a), tmp, b);
    let (ma, mb) = (format!("require(\"{}\")", module_of(a)), format!("require(\"{}\")", module_of(b)));
    for vs in c.texts.values_mut() {
        for t in vs.iter_mut() {
            *t = t.replace(&ma, "require(\"\u{1}\")").replace(&mb, &ma).replace("require(\"\u{1}\")", &mb);
        }
    }
    c
}

const CANONICAL_NAMES: [&str; 4] = ["main/a.lua", "main/b.lua", "main/c.lua", "main/d.lua"];

fn inversions(p: &[usize]) -> usize {
    let mut n = 0;
    for i in 0..p.len() {
        for j in i + 1..p.len() {
            if p[i] > p[j] {
                n += 1;
            }
        }
    }
    n
}

/// permutations of the same length with fewer inversions than `p`, simplest first
fn simpler_orders(p: &[usize]) -> Vec<Vec<usize>> {
    if p.len() > 5 {
        return vec![];
    }
    let mut v: Vec<Vec<usize>> = vcore::permutations(p.len()).into_iter().filter(|q| inversions(q) > 0 && inversions(q) < inversions(p)).collect();
    v.sort_by_key(|q| (inversions(q), q.clone()));
    v
}


// ------------------------------------------------------------------ identifier canonicalisation

const NO_RENAME: [&str; 48] = [
    "and", "break", "do", "else", "elseif", "end", "false", "for", "function", "goto", "if", "in", "local", "nil", "not", "or", "repeat", "return", "then", "true", "until", "while",
    "integer", "string", "boolean", "number", "table", "any", "unknown", "fun", "self", "require", "setmetatable", "__index", "pairs", "ipairs", "print", "partial", "key", "public", "private", "protected",
    "add", "unm", "call", "sub", "mul", "concat",
];

fn is_ident_start(c: char) -> bool {
    c.is_ascii_alphabetic() || c == '_'
}
fn is_ident_char(c: char) -> bool {
    c.is_ascii_alphanumeric() || c == '_'
}

/// (byte range, identifier, structural?) for every identifier token of `text` outside double-quoted
/// strings; "structural" = in code, or in the declaration part (not the description) of a doc line
fn ident_tokens(text: &str) -> Vec<(usize, usize, bool)> {
    let mut out = Vec::new();
    let mut off = 0usize;
    for line in text.split_inclusive('\n') {
        let trimmed = line.trim_start();
        let is_doc = trimmed.starts_with("---");
        // word index bookkeeping for doc lines
        let tag: Option<&str> = if is_doc { trimmed.strip_prefix("---@").map(|r| r.split(|c: char| !is_ident_char(c)).next().unwrap_or("")) } else { None };
        let bytes: Vec<(usize, char)> = line.char_indices().collect();
        let mut i = 0;
        let mut in_str = false;
        let mut word_idx: i32 = -1; // index of the current whitespace-separated word after the tag word
        let mut seen_tag_word = false;
        let mut prev_word_end_colon = false;
        let mut cur_word_start_struct = true;
        let mut prev_was_space = true;
        let mut desc_started = false;
        while i < bytes.len() {
            let (bi, c) = bytes[i];
            if c == '"' {
                in_str = !in_str;
            }
            if is_doc && !c.is_whitespace() && prev_was_space {
                // a new word starts
                if !seen_tag_word {
                    seen_tag_word = true;
                } else {
                    word_idx += 1;
                    let word: String = bytes[i..].iter().map(|x| x.1).take_while(|c| !c.is_whitespace()).collect();
                    let structural = match tag {
                        Some("class") => word_idx == 0 || word == ":" || prev_word_end_colon,
                        Some("field") => word_idx <= 1,
                        Some(_) => true,
                        None => false, // plain `--- text` description line
                    };
                    if !structural {
                        desc_started = true;
                    }
                    cur_word_start_struct = structural && !desc_started;
                    prev_word_end_colon = word.ends_with(':') || word.ends_with(',') || word == ":";
                }
            }
            prev_was_space = c.is_whitespace();
            if !in_str && is_ident_start(c) && (i == 0 || !is_ident_char(bytes[i - 1].1)) {
                let mut j = i;
                while j < bytes.len() && is_ident_char(bytes[j].1) {
                    j += 1;
                }
                let end = if j < bytes.len() { bytes[j].0 } else { line.len() };
                let after_at = i > 0 && bytes[i - 1].1 == '@';
                if !after_at {
                    let structural = if is_doc { seen_tag_word && word_idx >= 0 && cur_word_start_struct } else { true };
                    out.push((off + bi, off + end, structural));
                }
                i = j;
                continue;
            }
            i += 1;
        }
        off += line.len();
    }
    out
}

fn rename_ident(case: &Case, from: &str, to: &str) -> Case {
    let mut c = case.clone();
    for vs in c.texts.values_mut() {
        for t in vs.iter_mut() {
            let toks = ident_tokens(t);
            let mut out = String::with_capacity(t.len());
            let mut last = 0;
            for (s, e, structural) in toks {
                // description words keep their text
                if structural && &t[s..e] == from {
                    out.push_str(&t[last..s]);
                    out.push_str(to);
                    last = e;
                }
            }
            out.push_str(&t[last..]);
            *t = out;
        }
    }
    c
}

/// identifiers that may be renamed, in order of first appearance
fn renameable_idents(case: &Case) -> (Vec<String>, BTreeSet<String>) {
    let mut order = Vec::new();
    let mut all = BTreeSet::new();
    let mut structural = BTreeSet::new();
    for vs in case.texts.values() {
        for t in vs {
            for (s, e, st) in ident_tokens(t) {
                let id = t[s..e].to_string();
                if st {
                    structural.insert(id.clone());
                }
                if all.insert(id.clone()) {
                    order.push(id);
                }
            }
        }
    }
    let order = order.into_iter().filter(|id| structural.contains(id) && !NO_RENAME.contains(&id.as_str())).collect();
    (order, all)
}

const LOWER_POOL: [&str; 8] = ["a", "b", "c", "d", "e", "f", "g", "h"];

/// Greedy delta minimisation over the engine's own vocabulary: shorten the history, drop files,
/// reset seam orders and configs, then delete lines of every file variant. `fails` must include
/// the validity check of the property.
pub fn minimise(case: &Case, fails: &dyn Fn(&Case) -> bool, budget: &mut usize) -> Case {
    let mut cur = case.clone();
    let mut try_it = |cand: &Case, budget: &mut usize| -> bool {
        if *budget == 0 {
            return false;
        }
        *budget -= 1;
        fails(cand)
    };
    loop {
        let mut progressed = false;
        // 1. drop whole files
        let files: Vec<String> = cur.texts.keys().cloned().collect();
        for f in files.iter().rev() {
            let cand = drop_file(&cur, f);
            if cand.ops.len() < 1 || cand == cur {
                continue;
            }
            if try_it(&cand, budget) {
                cur = cand;
                progressed = true;
            }
        }
        // 2. drop single ops (from the end)
        let mut i = cur.ops.len();
        while i > 0 {
            i -= 1;
            if matches!(cur.ops[i], Op::Mark) {
                continue;
            }
            let mut cand = cur.clone();
            cand.ops.remove(i);
            if try_it(&cand, budget) {
                cur = cand;
                progressed = true;
            }
        }
        // 3. shrink batches item by item; reset seam orders; turn a one-file batch into a set
        for i in 0..cur.ops.len() {
            // a batch after the first op replaced by the single update of one of its files
            if i > 0 {
                if let Op::Batch { items, .. } = cur.ops[i].clone() {
                    for (f, v) in items.iter() {
                        let mut cand = cur.clone();
                        cand.ops[i] = match v {
                            Some(v) => Op::Set { f: f.clone(), v: *v },
                            None => Op::Close { f: f.clone() },
                        };
                        if try_it(&cand, budget) {
                            cur = cand;
                            progressed = true;
                            break;
                        }
                    }
                }
            }
            if let Op::Batch { items, order, rorder } = cur.ops[i].clone() {
                // simpler (fewer inversions) seam orders
                for (which, o) in [(0, order.clone()), (1, rorder.clone())] {
                    let Some(o) = o else { continue };
                    for q in simpler_orders(&o) {
                        let mut cand = cur.clone();
                        if let Op::Batch { order, rorder, .. } = &mut cand.ops[i] {
                            if which == 0 {
                                *order = Some(q.clone());
                            } else {
                                *rorder = Some(q.clone());
                            }
                        }
                        if try_it(&cand, budget) {
                            cur = cand;
                            progressed = true;
                            break;
                        }
                    }
                }
            }
            if let Op::Batch { items, order, rorder } = cur.ops[i].clone() {
                if order.is_some() || rorder.is_some() {
                    for (o, r) in [(None, None), (order.clone(), None), (None, rorder.clone())] {
                        if (o.clone(), r.clone()) == (order.clone(), rorder.clone()) {
                            continue;
                        }
                        let mut cand = cur.clone();
                        cand.ops[i] = Op::Batch { items: items.clone(), order: o, rorder: r };
                        if try_it(&cand, budget) {
                            cur = cand;
                            progressed = true;
                            break;
                        }
                    }
                }
                if let Op::Batch { items, order: None, rorder: None } = cur.ops[i].clone() {
                    for j in (0..items.len()).rev() {
                        if let Op::Batch { items: now, .. } = cur.ops[i].clone() {
                            if now.len() <= 1 || j >= now.len() {
                                continue;
                            }
                            let mut it = now.clone();
                            it.remove(j);
                            let mut cand = cur.clone();
                            cand.ops[i] = Op::Batch { items: it, order: None, rorder: None };
                            if try_it(&cand, budget) {
                                cur = cand;
                                progressed = true;
                            }
                        }
                    }
                    if let Op::Batch { items: now, .. } = cur.ops[i].clone() {
                        if now.len() == 1 {
                            let (f, v) = now[0].clone();
                            let mut cand = cur.clone();
                            cand.ops[i] = match v {
                                Some(v) => Op::Set { f, v },
                                None => Op::Close { f },
                            };
                            if try_it(&cand, budget) {
                                cur = cand;
                                progressed = true;
                            }
                        }
                    }
                }
            }
        }
        // 3b. prefer remove_file_by_uri over update(None) (canonical removal method)
        for i in 0..cur.ops.len() {
            if let Op::Close { f } = cur.ops[i].clone() {
                let mut cand = cur.clone();
                cand.ops[i] = Op::Remove { f };
                if try_it(&cand, budget) {
                    cur = cand;
                    progressed = true;
                }
            }
        }
        // 4. seams and configs back to default
        for site in cur.seams.keys().cloned().collect::<Vec<_>>() {
            let mut cand = cur.clone();
            cand.seams.remove(&site);
            if try_it(&cand, budget) {
                cur = cand;
                progressed = true;
            }
        }
        for ci in 0..cur.configs.len() {
            if cur.configs[ci].as_object().is_some_and(|o| !o.is_empty()) {
                let mut cand = cur.clone();
                cand.configs[ci] = serde_json::json!({});
                if try_it(&cand, budget) {
                    cur = cand;
                    progressed = true;
                }
            }
        }
        // 5. delete lines of every variant (chunks first, then single lines)
        let keys: Vec<(String, usize)> = cur.texts.iter().flat_map(|(f, vs)| (0..vs.len()).map(move |i| (f.clone(), i))).collect();
        for (f, vi) in keys {
            let lines: Vec<String> = cur.texts[&f][vi].split_inclusive('\n').map(|s| s.to_string()).collect();
            if lines.is_empty() {
                continue;
            }
            let mut keep = lines.clone();
            let mut chunk = keep.len() / 2;
            while chunk >= 1 {
                let mut i = 0;
                while i + chunk <= keep.len() {
                    let mut cand_lines = keep.clone();
                    cand_lines.drain(i..i + chunk);
                    let mut cand = cur.clone();
                    cand.texts.get_mut(&f).unwrap()[vi] = cand_lines.concat();
                    if try_it(&cand, budget) {
                        keep = cand_lines;
                        cur = cand;
                        progressed = true;
                    } else {
                        i += chunk;
                    }
                }
                chunk /= 2;
            }
        }
        // 6. simpler orders at the other seams; canonical file names
        for (site, o) in cur.seams.clone() {
            for q in simpler_orders(&o) {
                let mut cand = cur.clone();
                cand.seams.insert(site.clone(), q);
                if try_it(&cand, budget) {
                    cur = cand;
                    progressed = true;
                    break;
                }
            }
        }
        let files: Vec<String> = cur.texts.keys().cloned().collect();
        for f in files {
            let rank = CANONICAL_NAMES.iter().position(|c| *c == f).unwrap_or(usize::MAX);
            for (ci, cand_name) in CANONICAL_NAMES.iter().enumerate() {
                if ci >= rank || cur.texts.contains_key(*cand_name) {
                    continue;
                }
                let cand = rename_file(&cur, &f, cand_name);
                if try_it(&cand, budget) {
                    cur = cand;
                    progressed = true;
                    break;
                }
            }
        }
        // 6b. the leading single loads (and a reindex after them) become one batch load
        {
            let mut k = 0;
            let mut seen: Vec<String> = Vec::new();
            while k < cur.ops.len() {
                match &cur.ops[k] {
                    Op::Set { f, .. } if !seen.contains(f) => {
                        seen.push(f.clone());
                        k += 1;
                    }
                    _ => break,
                }
            }
            if k >= 2 {
                let items: Vec<(String, Option<usize>)> = cur.ops[..k].iter().filter_map(|o| if let Op::Set { f, v } = o { Some((f.clone(), Some(*v))) } else { None }).collect();
                let mut cand = cur.clone();
                cand.ops.splice(0..k, [Op::Batch { items, order: None, rorder: None }]);
                if try_it(&cand, budget) {
                    cur = cand;
                    progressed = true;
                }
            }
        }
        // 6b'. the first batch load lists its files in path order
        if let Some(Op::Batch { items, order: None, rorder: None }) = cur.ops.first().cloned() {
            let mut sorted = items.clone();
            sorted.sort();
            if sorted != items {
                let mut cand = cur.clone();
                cand.ops[0] = Op::Batch { items: sorted, order: None, rorder: None };
                if try_it(&cand, budget) {
                    cur = cand;
                    progressed = true;
                }
            }
        }
        // 6c. canonical identifier names (variables, fields, type names), simplest first
        {
            let (order, _) = renameable_idents(&cur);
            for id in order {
                let (_, used) = renameable_idents(&cur);
                if !used.contains(&id) {
                    continue;
                }
                let pool: &[&str] = &LOWER_POOL;
                let rank = pool.iter().position(|p| *p == id).unwrap_or(usize::MAX);
                for (pi, p) in pool.iter().enumerate() {
                    if pi >= rank {
                        break;
                    }
                    if used.contains(*p) {
                        continue;
                    }
                    let cand = rename_ident(&cur, &id, p);
                    if try_it(&cand, budget) {
                        cur = cand;
                        progressed = true;
                        break;
                    }
                }
            }
        }
        // 7. swap two files (and the module names they are required by) when that gives a smaller case
        let files: Vec<String> = cur.texts.keys().cloned().collect();
        for i in 0..files.len() {
            for j in i + 1..files.len() {
                let cand = swap_files(&cur, &files[i], &files[j]);
                let (a, b) = (serde_json::to_string(&cand.compact().to_json()).unwrap_or_default(), serde_json::to_string(&cur.compact().to_json()).unwrap_or_default());
                if a < b && try_it(&cand, budget) {
                    cur = cand;
                    progressed = true;
                }
            }
        }
        if !progressed || *budget == 0 {
            break;
        }
    }
    cur.compact()
}

// ------------------------------------------------------------------ "explained by" test

/// a line with every renameable identifier replaced by `_` (witnesses carry canonical names)
fn mask_line(l: &str) -> String {
    let mut out = String::with_capacity(l.len());
    let mut last = 0;
    for (s, e, _) in ident_tokens(l) {
        if !NO_RENAME.contains(&&l[s..e]) {
            out.push_str(&l[last..s]);
            out.push('_');
            last = e;
        }
    }
    out.push_str(&l[last..]);
    out
}

fn is_subsequence(small: &[&str], big: &[&str]) -> bool {
    let big: Vec<String> = big.iter().map(|l| mask_line(l)).collect();
    let mut it = big.iter();
    small.iter().all(|x| {
        let m = mask_line(x);
        it.any(|y| *y == m)
    })
}

#[derive(Clone, Debug)]
enum Ev {
    Put(String, usize),
    Gone(String),
    Mark,
    Reindex,
    Config,
}

fn events(c: &Case) -> Vec<Ev> {
    let mut v = Vec::new();
    for op in &c.ops {
        match op {
            Op::Set { f, v: x } => v.push(Ev::Put(f.clone(), *x)),
            Op::Close { f } | Op::Remove { f } => v.push(Ev::Gone(f.clone())),
            Op::Batch { items, .. } => {
                for (f, x) in items {
                    v.push(match x {
                        Some(x) => Ev::Put(f.clone(), *x),
                        None => Ev::Gone(f.clone()),
                    });
                }
            }
            Op::Mark => v.push(Ev::Mark),
            Op::Reindex => v.push(Ev::Reindex),
            Op::Config { .. } => v.push(Ev::Config),
        }
    }
    v
}

fn ev_embeds(w: &Ev, r: &Ev, fmap: &BTreeMap<&str, &str>, vcand: &BTreeMap<(String, usize), Vec<usize>>) -> bool {
    let g = |f: &String| fmap.get(f.as_str()).map(|x| x.to_string());
    match (w, r) {
        (Ev::Mark, Ev::Mark) | (Ev::Reindex, Ev::Reindex) | (Ev::Config, Ev::Config) => true,
        (Ev::Put(f, v), Ev::Put(rf, rv)) => g(f).as_ref() == Some(rf) && vcand.get(&(f.clone(), *v)).is_some_and(|c| c.contains(rv)),
        (Ev::Gone(f), Ev::Gone(rf)) => g(f).as_ref() == Some(rf),
        _ => false,
    }
}

/// Heuristic "raw case `r` is explained by minimal witness `w`": `w` can be obtained from `r` by
/// the minimiser's own reductions (drop files / ops / batch items / lines, rename files).
pub fn embeds(w: &Case, r: &Case) -> bool {
    let wf: Vec<&String> = w.texts.keys().collect();
    let rf: Vec<&String> = r.texts.keys().collect();
    if wf.len() > rf.len() {
        return false;
    }
    // all injective maps wf -> rf
    fn rec<'a>(i: usize, wf: &[&'a String], rf: &[&'a String], used: &mut Vec<bool>, cur: &mut Vec<usize>, w: &Case, r: &Case) -> bool {
        if i == wf.len() {
            let fmap: BTreeMap<&str, &str> = wf.iter().enumerate().map(|(k, f)| (f.as_str(), rf[cur[k]].as_str())).collect();
            let mut vcand: BTreeMap<(String, usize), Vec<usize>> = BTreeMap::new();
            for f in wf {
                let g = fmap[f.as_str()];
                for (wi, wt) in w.texts[*f].iter().enumerate() {
                    let wl: Vec<&str> = wt.lines().collect();
                    let c: Vec<usize> = r.texts[g].iter().enumerate().filter(|(_, rt)| is_subsequence(&wl, &rt.lines().collect::<Vec<_>>())).map(|(ri, _)| ri).collect();
                    vcand.insert(((*f).clone(), wi), c);
                }
            }
            let (we, re) = (events(w), events(r));
            let mut it = re.iter();
            return we.iter().all(|wo| it.any(|ro| ev_embeds(wo, ro, &fmap, &vcand)));
        }
        for j in 0..rf.len() {
            if !used[j] {
                used[j] = true;
                cur.push(j);
                let ok = rec(i + 1, wf, rf, used, cur, w, r);
                cur.pop();
                used[j] = false;
                if ok {
                    return true;
                }
            }
        }
        false
    }
    rec(0, &wf, &rf, &mut vec![false; rf.len()], &mut Vec::new(), w, r)
}
