//! The collision-designed universe of DESIGN §4 C08: five files (one in a library root, two that
//! map to the same module name) with up to three content variants each.
use crate::world::{Case, Op};
use serde_json::{Value, json};
use std::collections::BTreeMap;

pub const A: &str = "main/a.lua";
pub const B: &str = "main/b/init.lua";
pub const C: &str = "main/c.lua";
pub const L: &str = "lib/liba.lua";
pub const D: &str = "main/b.lua";
pub const FILES: [&str; 5] = [A, B, C, L, D];

const A0: &str = r#"--- Documented local A.
---@class A Documented class A.
---@field x integer the x field
---@field name string
---@operator add(A): A
local A = {}

--- get doc
---@param n integer
---@return integer
function A:get(n)
    return self.x + n
end

G1 = 1

---@alias Id integer|string

---@enum Color
Color = { Red = 1, Green = 2 }

return A
"#;
const A1: &str = r#"---@class A
---@field x string
local A = {}

function A:get(n)
    return n
end

G1 = "one"
GT = { k = 1 }

---@alias Id boolean

return A
"#;
const A2: &str = r#"---@class A
local A = {

---@deprecated use other
function old() end

return A
"#;

const B0: &str = r#"---@class A
local A = require("a")

---@class (partial) P
---@field p1 integer
local P = {}

G1 = "str"

---@type A
local v = A
v.x = "s"
local r = v + v

---@type Id
local id = 1

return { a = A, P = P }
"#;
const B1: &str = r#"---@class A B's description of A.
---@field y number
---@field x string
local A = require("a")

---@class (partial) P
---@field p1 string

G1 = 2
GT = { k = "s" }

return { a = A }
"#;
const B2: &str = r#"local A = require("a")
---@diagnostic disable-next-line: undefined-global
local u = undefinedThing
local n = A:get(1)
return { a = A, n = n }
"#;

const C0: &str = r#"local b = require("b")
local a = b.a
local x = a.x
local c = Color.Red

---@class (partial) P
---@field p2 boolean

---@type P
local p
local q = p.p1

G1 = true

local mt = setmetatable({}, { __index = a })
local z = mt.name

---@diagnostic disable: unused
return mt
"#;
const C1: &str = r#"local A = require("a")
local L = require("liba")
---@class C : A
---@field c integer
local C = {}
---@type C
local inst
local s = inst.x
local t = L.val
undefinedCall()
return C
"#;
const C2: &str = r#"local b = require("b")
local h = 7 // 2
goto done
::done::
return h
"#;

const L0: &str = r#"---@meta
---@class LibT
---@field val integer
local M = {}
M.val = 1
G1 = {}
return M
"#;
const L1: &str = r#"---@class LibT
---@field val string
---@class A
---@field fromlib boolean
local M = { val = "s" }
return M
"#;

const D0: &str = r#"return { a = 1, dup = true }
"#;
const D1: &str = r#"---@class A
---@field z table
return { a = "dupv1" }
"#;

pub fn texts(files: &[&str]) -> BTreeMap<String, Vec<String>> {
    let all: [(&str, Vec<&str>); 5] = [(A, vec![A0, A1, A2]), (B, vec![B0, B1, B2]), (C, vec![C0, C1, C2]), (L, vec![L0, L1]), (D, vec![D0, D1])];
    all.iter().filter(|(f, _)| files.contains(f)).map(|(f, v)| (f.to_string(), v.iter().map(|s| s.to_string()).collect())).collect()
}

pub fn variants(f: &str) -> usize {
    match f {
        L | D => 2,
        _ => 3,
    }
}

/// configuration alphabet (index 0 = default)
pub fn configs() -> Vec<Value> {
    vec![
        json!({}),
        json!({"strict": {"requirePath": true}}),
        json!({"diagnostics": {"disable": ["undefined-global"], "severity": {"unused": "error"}}}),
        json!({"runtime": {"version": "Lua5.1"}}),
        // the remaining configuration-derived state of the module index (update_config compiles it into the
        // index, reindex must not keep what an earlier configuration compiled): module-name rewrite rules …
        json!({"workspace": {"moduleMap": [{"pattern": "^a$", "replace": "renamed_a"}, {"pattern": "^lib(.*)$", "replace": "l$1"}]}}),
        // … and the module-name extraction patterns (without `?/init.lua`, `b/init.lua` is module `b.init`)
        json!({"runtime": {"requirePattern": ["?.lua"]}}),
    ]
}

pub fn base_case(files: &[&str]) -> Case {
    Case { texts: texts(files), configs: configs(), ops: vec![], seams: Default::default() }
}

pub fn load(assign: &[(&str, usize)]) -> Op {
    Op::Batch { items: assign.iter().map(|(f, v)| (f.to_string(), Some(*v))).collect(), order: None, rorder: None }
}

/// designed workspaces (file -> variant); the first ones are used by the quick tier
pub fn workspaces(tier_thorough: bool) -> Vec<Vec<(&'static str, usize)>> {
    let mut v = vec![
        vec![(A, 0), (B, 0), (C, 0), (L, 0)],
        vec![(A, 0), (B, 1), (C, 1), (L, 1)],
        vec![(A, 1), (B, 0), (C, 0), (D, 0)],
        vec![(A, 0), (B, 2), (D, 1), (L, 0)],
        vec![(A, 2), (B, 0), (C, 2)],
        vec![(A, 0), (B, 0)],
    ];
    if tier_thorough {
        // every assignment of variants to the four-file and five-file universes
        for files in [vec![A, B, C, L], vec![A, B, C, D], vec![A, B, C, L, D]] {
            let radices: Vec<usize> = files.iter().map(|f| variants(f)).collect();
            let mut digits = Vec::new();
            for i in 0..vcore::mixed_total(&radices) {
                vcore::decode_mixed(i, &radices, &mut digits);
                let w: Vec<(&'static str, usize)> = files.iter().zip(digits.iter()).map(|(f, d)| (*f, *d)).collect();
                if !v.contains(&w) {
                    v.push(w);
                }
            }
        }
    }
    v
}

/// order-sensitive workspaces for C11 (DESIGN §4 C11)
pub fn order_workspaces() -> Vec<(BTreeMap<String, Vec<String>>, Vec<(String, usize)>)> {
    let mk = |files: &[(&str, &str)]| {
        let texts: BTreeMap<String, Vec<String>> = files.iter().map(|(f, t)| (f.to_string(), vec![t.to_string()])).collect();
        let w: Vec<(String, usize)> = files.iter().map(|(f, _)| (f.to_string(), 0)).collect();
        (texts, w)
    };
    vec![
        // one global assigned integer / string / boolean / table in four files
        mk(&[
            ("main/g1.lua", "G = 1\nlocal a = G\n"),
            ("main/g2.lua", "G = \"s\"\n"),
            ("main/g3.lua", "G = true\nlocal c = G\n"),
            ("main/g4.lua", "G = {}\nlocal b = G\n"),
        ]),
        // partial classes with conflicting field types
        mk(&[
            ("main/p1.lua", "---@class (partial) Q\n---@field f integer\nlocal Q = {}\nQ.g = 1\nreturn Q\n"),
            ("main/p2.lua", "---@class (partial) Q\n---@field f string\n---@type Q\nlocal q\nlocal v = q.f\nlocal w = q.g\n"),
            ("main/p3.lua", "---@class Q\n---@field f boolean\nQ2 = {}\nQ2.g = \"s\"\n"),
            ("lib/p4.lua", "---@class (partial) Q\n---@field f table\n---@field h integer\n"),
        ]),
        // alias cycle
        mk(&[
            ("main/a1.lua", "---@alias X Y\n---@type X\nlocal x\n"),
            ("main/a2.lua", "---@alias Y Z\n---@type Y\nlocal y\n"),
            ("main/a3.lua", "---@alias Z X\n---@type Z\nlocal z\nlocal y = z\n"),
        ]),
        // require cycle
        mk(&[
            ("main/r1.lua", "local r2 = require(\"r2\")\nlocal M = { v = r2.w }\nreturn M\n"),
            ("main/r2.lua", "local r3 = require(\"r3\")\nreturn { w = r3.u }\n"),
            ("main/r3.lua", "local r1 = require(\"r1\")\nreturn { u = 1, back = r1 }\n"),
            ("main/r4.lua", "local r1 = require(\"r1\")\nlocal k = r1.v\n"),
        ]),
        // require ring whose members also write one global table and one global of four types: what each file
        // sees depends on which ring member is analysed first, and that is fixed by the registration order only
        mk(&[
            ("main/q1.lua", "local q2 = require(\"q2\")\nlocal M = {}\nM.name = \"a\"\nfunction M.get() return q2.get() end\nfunction M.id() return 1 end\nShared = Shared or {}\nShared.a = q2.name\nCounter = 1\nreturn M\n"),
            ("main/q2.lua", "local q3 = require(\"q3\")\nlocal M = {}\nM.name = 2\nfunction M.get() return q3.get() end\nfunction M.id() return \"b\" end\nShared = Shared or {}\nShared.b = q3.name\nCounter = \"two\"\nreturn M\n"),
            ("main/q3.lua", "local q4 = require(\"q4\")\nlocal M = {}\nM.name = true\nfunction M.get() return q4.get() end\nfunction M.id() return true end\nShared = Shared or {}\nShared.c = q4.name\nCounter = false\nreturn M\n"),
            ("main/q4.lua", "local q1 = require(\"q1\")\nlocal M = {}\nM.name = 1.5\nfunction M.get() return q1.id() end\nfunction M.id() return {} end\nShared = Shared or {}\nShared.d = q1.name\nCounter = {}\nreturn M\n"),
            ("main/q5.lua", "local q1 = require(\"q1\")\nlocal r1 = q1.get()\n---@type string\nlocal s = Counter\n---@type integer\nlocal i = Shared.a\n---@type integer\nlocal j = Shared.d\n"),
        ]),
    ]
}

// ------------------------------------------------------------------ split declarations
//
// One workspace per *kind of per-file contribution to a shared declaration*: a type declared in
// two files where only the "carrier" (s1) contributes the super type / generic parameters /
// fields / operators+overload / enum base+alias origin, the second file (s2) merely re-declares
// the type (variant 1 of s2 contributes something different), and an observer file (s3) uses the
// type. (The description split is the class `A` of the main universe: a.lua v0 / b/init.lua v0.)
// Every index that keys entries by the shared declaration must prune exactly the re-submitted
// file's share.

pub struct Ws {
    pub name: &'static str,
    pub base: Case,
    pub assign: Vec<(String, usize)>,
    pub split: bool,
}

pub const S1: &str = "main/s1.lua";
pub const S2: &str = "main/s2.lua";
pub const S3: &str = "main/s3.lua";

fn split_ws(name: &'static str, s1: &[&str], s2: &[&str], s3: &[&str]) -> Ws {
    let mut texts: BTreeMap<String, Vec<String>> = BTreeMap::new();
    texts.insert(S1.into(), s1.iter().map(|s| s.to_string()).collect());
    texts.insert(S2.into(), s2.iter().map(|s| s.to_string()).collect());
    texts.insert(S3.into(), s3.iter().map(|s| s.to_string()).collect());
    Ws { name, base: Case { texts, configs: configs(), ops: vec![], seams: Default::default() }, assign: vec![(S1.into(), 0), (S2.into(), 0), (S3.into(), 0)], split: true }
}

pub fn split_workspaces() -> Vec<Ws> {
    // the shared type has the same name (`W`, alias `Id`) in every workspace so that one root
    // cause reduces to one witness whatever workspace exposed it
    vec![
        // (a) super type
        split_ws(
            "split-super",
            &[
                "---@class Base\n---@field bf integer\n\n---@class W: Base\nlocal W = {}\nreturn W\n",
                "---@class Base\n---@field bf integer\n\n---@class W\nlocal W = {}\nreturn W\n",
            ],
            &["---@class W\n", "---@class Other\n---@field of string\n\n---@class W: Other\n"],
            &["---@type W\nlocal w\nlocal a = w.bf\nlocal b = w.of\n"],
        ),
        // (b) generic parameters
        split_ws(
            "split-generic",
            &["---@class W<T>\n---@field value T\n", "---@class W\n---@field value any\n"],
            &["---@class W\n", "---@class W<U>\n---@field other U\n"],
            &["---@type W<string>\nlocal w\nlocal v = w.value\nlocal o = w.other\n"],
        ),
        // (c) fields
        split_ws(
            "split-fields",
            &["---@class W\n---@field f integer the f field\nlocal W = {}\nfunction W:m() end\nreturn W\n", "---@class W\nlocal W = {}\nreturn W\n"],
            &["---@class W\n", "---@class W\n---@field f string\n---@field g boolean\n"],
            &["---@type W\nlocal w\nlocal x = w.f\nlocal y = w.g\nlocal z = w:m()\n"],
        ),
        // (d) operators and call overload
        split_ws(
            "split-operator",
            &["---@class W\n---@operator add(W): W\n---@operator unm: W\n---@overload fun(n: integer): W\n", "---@class W\n"],
            &["---@class W\n", "---@class W\n---@operator add(W): integer\n"],
            &["---@type W\nlocal w\nlocal s = w + w\nlocal n = -w\nlocal c = w(1)\n"],
        ),
        // (f) enum fields and alias origin
        split_ws(
            "split-enum-alias",
            &["---@enum Mode\nMode = { On = 1, Off = 2 }\n\n---@alias Id integer|string\n", "---@enum (key) Mode\nMode = { On = 1 }\n\n---@alias Id boolean\n"],
            &["---@enum Mode\n\n---@alias Id\n", "---@alias Id table\n"],
            &["---@type Mode\nlocal m = Mode.On\n---@type Id\nlocal n\n"],
        ),
    ]
}

pub fn load_s(assign: &[(String, usize)]) -> Op {
    Op::Batch { items: assign.iter().map(|(f, v)| (f.clone(), Some(*v))).collect(), order: None, rorder: None }
}

/// the designed workspaces of the main universe followed by the split workspaces
pub fn all_workspaces(tier_thorough: bool) -> Vec<Ws> {
    let mut out: Vec<Ws> = workspaces(tier_thorough)
        .into_iter()
        .map(|w| Ws { name: "main", base: base_case(&FILES), assign: w.iter().map(|(f, v)| (f.to_string(), *v)).collect(), split: false })
        .collect();
    out.extend(split_workspaces());
    out
}
