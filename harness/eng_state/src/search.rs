//! Explicit-state search (family B) and seam permutation (family C-seam) for C08–C11.
use serde_json::json;
use std::collections::{BTreeMap, BTreeSet, HashSet};
use std::sync::Mutex;
use vcore::*;

use crate::check::*;
use crate::universe as u;
use crate::world::*;

pub struct Raw {
    pub case: Case,
    pub class: String,
    pub detail: String,
    /// position in the exploration order (level, index): a run that is cut short keeps an exact
    /// prefix of the complete run's raw cases
    pub seq: u64,
}

/// Collects raw violating cases in exploration order; per class only the first `RAW_CAP` are kept
/// for attribution, the rest are counted.
#[derive(Default)]
pub struct RawSink {
    by_class: BTreeMap<String, Vec<Raw>>,
    dropped: BTreeMap<String, u64>,
}
const RAW_CAP: usize = 20000;

impl RawSink {
    pub fn push(&mut self, mut r: Raw) {
        r.case = r.case.compact();
        let v = self.by_class.entry(r.class.clone()).or_default();
        v.push(r);
        if v.len() >= 2 * RAW_CAP {
            v.sort_by_key(|x| x.seq);
            let n = (v.len() - RAW_CAP) as u64;
            v.truncate(RAW_CAP);
            let class = v[0].class.clone();
            *self.dropped.entry(class).or_insert(0) += n;
        }
    }
    /// forget everything recorded at or after `seq` (an exploration level / batch that was cut short)
    pub fn discard_from(&mut self, seq: u64) {
        for v in self.by_class.values_mut() {
            v.retain(|x| x.seq < seq);
        }
    }
    pub fn into_parts(mut self) -> (Vec<Raw>, BTreeMap<String, u64>) {
        let mut out = Vec::new();
        for (class, v) in self.by_class.iter_mut() {
            v.sort_by_key(|x| x.seq);
            if v.len() > RAW_CAP {
                *self.dropped.entry(class.clone()).or_insert(0) += (v.len() - RAW_CAP) as u64;
                v.truncate(RAW_CAP);
            }
        }
        for (_, v) in self.by_class {
            out.extend(v);
        }
        (out, self.dropped)
    }
}

pub struct Counters {
    pub states: u64,
    pub transitions: u64,
    pub replays: std::sync::atomic::AtomicU64,
    pub max_depth: usize,
    pub distinct_dumps: BTreeSet<String>,
}

impl Default for Counters {
    fn default() -> Self {
        Counters { states: 0, transitions: 0, replays: Default::default(), max_depth: 0, distinct_dumps: BTreeSet::new() }
    }
}

fn perms_of(n: usize) -> Vec<Vec<usize>> {
    permutations(n)
}

/// orders used for a seam of length `n`: all n! when n ≤ 4, otherwise a stated subset
pub fn seam_orders(n: usize) -> Vec<Vec<usize>> {
    if n <= 4 {
        return perms_of(n).into_iter().filter(|p| p.windows(2).any(|w| w[0] > w[1])).collect();
    }
    let id: Vec<usize> = (0..n).collect();
    let mut out = Vec::new();
    let mut rev = id.clone();
    rev.reverse();
    out.push(rev);
    let mut rot = id.clone();
    rot.rotate_left(1);
    out.push(rot);
    let mut s = id.clone();
    s.swap(0, 1);
    out.push(s);
    let mut s = id.clone();
    s.swap(n - 2, n - 1);
    out.push(s);
    out
}

// ------------------------------------------------------------------ violation post-processing

/// Attribution of raw violating cases to minimal witnesses, greedily **in exploration order**: a raw
/// case that an earlier witness of its class embeds in (the witness is obtainable from it by the
/// minimiser's own reductions, identifiers masked) is explained by it, otherwise it is minimised
/// and becomes a witness (at most `per_class` per class; later unexplained ones are counted).
/// Every decision depends only on earlier raw cases, and a run that was cut short keeps an exact
/// prefix of the raw cases, so it reports a subset of the complete run's fingerprints.
pub fn finalize(
    prop: &str,
    sink: RawSink,
    fails: &(dyn Fn(&Case, &str) -> Option<String> + Sync),
    st: &mut Stats,
    threads: usize,
    per_class: usize,
    dl: &Deadline,
) {
    let (raws, dropped) = sink.into_parts();
    if raws.is_empty() {
        return;
    }
    for (class, n) in &dropped {
        st.raw_violating_cases += n;
        *st.outcomes.entry(format!("not-attributed:{class} (beyond the first {RAW_CAP} raw cases of this class)")).or_insert(0) += n;
    }
    let _ = (prop, dl);
    let mut by_class: BTreeMap<String, Vec<Raw>> = BTreeMap::new();
    for r in raws {
        by_class.entry(r.class.clone()).or_default().push(r);
    }
    struct ClassState {
        class: String,
        raws: Vec<Raw>,
        next: usize,
        witnesses: Vec<(Case, Violation, u64)>,
        overflow: u64,
    }
    let mut states: Vec<ClassState> = by_class.into_iter().map(|(class, raws)| ClassState { class, raws, next: 0, witnesses: vec![], overflow: 0 }).collect();
    let far = Deadline::after_secs(6.0 * 3600.0); // minimisation is not cut by the exploration deadline
    loop {
        let mut jobs: Vec<(usize, usize)> = Vec::new();
        for (ci, cs) in states.iter_mut().enumerate() {
            while cs.next < cs.raws.len() {
                let r = &cs.raws[cs.next];
                if let Some(w) = cs.witnesses.iter_mut().find(|w| embeds(&w.0, &r.case)) {
                    w.2 += 1;
                    cs.next += 1;
                    continue;
                }
                if cs.witnesses.len() >= per_class {
                    cs.overflow += 1;
                    cs.next += 1;
                    continue;
                }
                jobs.push((ci, cs.next));
                cs.next += 1;
                break;
            }
        }
        if jobs.is_empty() {
            break;
        }
        let results: Mutex<Vec<(usize, Case, Violation)>> = Mutex::new(Vec::new());
        let _ = par_range(jobs.len() as u64, threads, &far, |i, _| {
            let (ci, ri) = jobs[i as usize];
            let class = &states[ci].class;
            let raw = &states[ci].raws[ri];
            // determinism before verdict: the raw case must fail again, identically
            let (min, v) = if fails(&raw.case, class).is_none() {
                (raw.case.clone(), Violation { signature: format!("nondeterministic:{class}"), witness: raw.case.to_json(), detail: format!("failed once, passed on re-execution: {}", raw.detail) })
            } else {
                let mut budget = 400usize;
                let min = minimise(&raw.case, &|c: &Case| fails(c, class).is_some(), &mut budget);
                let d = fails(&min, class).unwrap_or_else(|| raw.detail.clone());
                (min.clone(), Violation { signature: class.clone(), witness: min.to_json(), detail: format!("{d}  (history: {})", min.describe()) })
            };
            results.lock().unwrap().push((ci, min, v));
        });
        let mut res = results.into_inner().unwrap();
        res.sort_by_key(|x| x.0);
        for (ci, min, v) in res {
            if let Some(w) = states[ci].witnesses.iter_mut().find(|w| w.1.witness == v.witness && w.1.signature == v.signature) {
                w.2 += 1;
            } else {
                states[ci].witnesses.push((min, v, 1));
            }
        }
    }
    for cs in states {
        for (_, v, n) in cs.witnesses {
            let key = format!("{}:{}", v.signature, v.witness);
            st.violation(v);
            if n > 1 {
                st.raw_violating_cases += n - 1;
                if let Some(e) = st.violations.get_mut(&key) {
                    e.1 += n - 1;
                }
            }
        }
        if cs.overflow > 0 {
            st.raw_violating_cases += cs.overflow;
            *st.outcomes.entry(format!("unminimised:{} (more than {per_class} distinct witnesses in this class)", cs.class)).or_insert(0) += cs.overflow;
        }
    }
}

/// `par_range` in consecutive batches; when the deadline cuts a batch short, what that batch recorded
/// is discarded, so the raw cases kept are exactly those of a prefix `0..k` of the case list.
fn par_batches<F>(n: u64, threads: usize, dl: &Deadline, raws: &Mutex<RawSink>, seq_base: u64, f: F) -> (Stats, bool)
where
    F: Fn(u64, &mut Stats) + Sync,
{
    let batch = 384u64;
    let mut all = Stats::default();
    let mut start = 0u64;
    while start < n {
        let end = (start + batch).min(n);
        let (st, ok) = par_range(end - start, threads, dl, |j, st| f(start + j, st));
        all.merge(st);
        if !ok {
            raws.lock().unwrap().discard_from(seq_base | start);
            return (all, false);
        }
        start = end;
    }
    (all, true)
}

fn record(v: &Verdict, case: &Case, seq: u64, st: &mut Stats, raws: &Mutex<RawSink>, unstable: &std::sync::atomic::AtomicU64) {
    if v.unstable {
        st.outcome("excluded:fresh-analysis-unstable");
        unstable.fetch_add(1, std::sync::atomic::Ordering::Relaxed);
        return;
    }
    if let Some(w) = &v.undecided {
        st.undecided += 1;
        st.outcome(&format!("undecided:{w}"));
        return;
    }
    for c in &v.classes {
        st.outcome(c);
    }
    if v.findings.is_empty() {
        st.outcome("holds");
    } else {
        st.outcome("violates");
        let mut r = raws.lock().unwrap();
        for f in &v.findings {
            r.push(Raw { case: case.clone(), class: f.class.clone(), detail: f.detail.clone(), seq });
        }
    }
}

// ------------------------------------------------------------------ alphabets

fn set_ops(case: &Case, model: &Model, only_live: bool, files: &[&str]) -> Vec<Op> {
    let mut out = Vec::new();
    for f in files {
        let live = model.files.get(*f).is_some_and(|e| e.1.is_some());
        if only_live && !live {
            continue;
        }
        for v in 0..case.texts.get(*f).map(|t| t.len()).unwrap_or(0) {
            out.push(Op::Set { f: f.to_string(), v });
        }
    }
    out
}

/// batched re-submission of the current content of subsets of the live files, in every seam order
fn resubmit_batches(model: &Model, sizes: &[usize], all_orders: bool) -> Vec<Op> {
    let live = model.live();
    let n = live.len();
    let mut out = Vec::new();
    for mask in 1u32..(1 << n) {
        let k = mask.count_ones() as usize;
        if k < 2 || !(sizes.contains(&k) || k == n) {
            continue;
        }
        let items: Vec<(String, Option<usize>)> = (0..n).filter(|i| mask & (1 << i) != 0).map(|i| (live[i].0.clone(), Some(live[i].1))).collect();
        let orders: Vec<Option<Vec<usize>>> = if all_orders || k <= 2 {
            let mut o = vec![None];
            o.extend(seam_orders(k).into_iter().map(Some));
            o
        } else {
            let mut rev: Vec<usize> = (0..k).collect();
            rev.reverse();
            vec![None, Some(rev)]
        };
        for o in orders {
            out.push(Op::Batch { items: items.clone(), order: o, rorder: None });
        }
    }
    out
}

// ------------------------------------------------------------------ C08

pub fn run_c08(args: &Args) -> ! {
    let dl = args.deadline();
    let mut rep = Report::new("C08", "model_checking");
    let thorough = args.tier == Tier::Thorough;
    let wss = u::all_workspaces(thorough);
    // consistent starting states S0: (workspace index, ops, explored to the deeper bound)
    let mut prefixes: Vec<(usize, Vec<Op>, bool)> = Vec::new();
    let n_deep = if thorough { 4 } else { 3 };
    let mut main_seen = 0usize;
    for (wi, ws) in wss.iter().enumerate() {
        let w = &ws.assign;
        let idx_in_kind = if ws.split { 0 } else { main_seen };
        if !ws.split {
            main_seen += 1;
        }
        let deep = ws.split || idx_in_kind < n_deep;
        prefixes.push((wi, vec![u::load_s(w)], deep));
        prefixes.push((wi, vec![u::load_s(w), Op::Reindex], deep));
        if ws.split || idx_in_kind < 6 {
            // every state reachable by ≤ 2 edits, then reindex
            let m = Model::of(&[u::load_s(w)]);
            let files: Vec<&str> = w.iter().map(|x| x.0.as_str()).collect();
            let edits: Vec<Op> = set_ops(&ws.base, &m, true, &files).into_iter().filter(|o| matches!(o, Op::Set{f,v} if m.files[f].1 != Some(*v))).collect();
            for e in &edits {
                prefixes.push((wi, vec![u::load_s(w), e.clone(), Op::Reindex], false));
            }
            if thorough {
                for e1 in &edits {
                    for e2 in &edits {
                        if e1.files() != e2.files() {
                            prefixes.push((wi, vec![u::load_s(w), e1.clone(), e2.clone(), Op::Reindex], false));
                        }
                    }
                }
            }
        }
    }
    let depth_all = 1;
    let depth_deep = if thorough { 3 } else { 2 };
    let cache = FreshCache::default();
    let raws = Mutex::new(RawSink::default());
    let unstable = std::sync::atomic::AtomicU64::new(0);
    let mut all = Stats::default();
    let mut cnt = Counters::default();
    // frontier: (prefix index, suffix)
    let mut frontier: Vec<(usize, Vec<Op>)> = (0..prefixes.len()).map(|i| (i, vec![])).collect();
    let mut visited: HashSet<(usize, String)> = HashSet::new();
    cnt.states = prefixes.len() as u64;
    let mut completed_depth = 0;
    let mut exhaustive = true;
    for depth in 1..=depth_deep {
        // transitions of this level
        let mut trans: Vec<(usize, Vec<Op>)> = Vec::new();
        for (pi, suffix) in &frontier {
            let (wi, pre, deep) = &prefixes[*pi];
            let base = &wss[*wi].base;
            if depth > depth_all && !*deep {
                continue;
            }
            let mut ops = pre.clone();
            ops.extend(suffix.iter().cloned());
            let m = Model::of(&ops);
            let files: Vec<&str> = base.texts.keys().map(|k| k.as_str()).collect();
            let mut alpha = set_ops(base, &m, true, &files);
            if depth == 1 {
                alpha.extend(resubmit_batches(&m, &[2, 3], true));
            } else {
                alpha.extend(resubmit_batches(&m, &[2], false));
            }
            for a in alpha {
                let mut s = suffix.clone();
                s.push(a);
                trans.push((*pi, s));
            }
        }
        if trans.is_empty() {
            break;
        }
        let results: Mutex<Vec<(usize, String)>> = Mutex::new(Vec::new());
        let (st, done) = par_batches(trans.len() as u64, args.threads, &dl, &raws, (depth as u64) << 32, |i, st| {
            let (pi, suffix) = &trans[i as usize];
            let mut case = wss[prefixes[*pi].0].base.clone();
            case.ops = prefixes[*pi].1.clone();
            case.ops.push(Op::Mark);
            case.ops.extend(suffix.iter().cloned());
            let judged = c08_valid(&case);
            let v = c08_check(&case, Some(&cache));
            st.eval(true);
            if judged {
                record(&v, &case, ((depth as u64) << 32) | i, st, &raws, &unstable);
            } else {
                st.outcome("intermediate (edit not yet restored)");
            }
            if i % 997 == 3 {
                st.sample(|| json!({"history": case.describe(), "judged": judged, "findings": v.findings.iter().map(|f| f.class.clone()).collect::<Vec<_>>()}));
            }
            results.lock().unwrap().push((i as usize, v.key));
        });
        all.merge(st);
        let mut res = results.into_inner().unwrap();
        res.sort();
        cnt.transitions += res.len() as u64;
        let mut next = Vec::new();
        for (i, key) in res {
            let (pi, suffix) = &trans[i];
            cnt.distinct_dumps.insert(key.split('|').nth(2).unwrap_or("").to_string());
            if visited.insert((*pi, key)) {
                cnt.states += 1;
                next.push((*pi, suffix.clone()));
            }
        }
        if !done {
            // the batch that was cut short contributes nothing (prefix property of the raw cases)
            exhaustive = false;
            break;
        }
        completed_depth = depth;
        cnt.max_depth = depth;
        frontier = next;
    }
    let raws = raws.into_inner().unwrap();
    finalize("C08", raws, &|c, class| if c08_valid(c) { c08_check(c, None).findings.into_iter().find(|f| f.class == class).map(|f| f.detail) } else { None }, &mut all, args.threads, 3, &dl);
    rep.rule = format!(
        "family B: from each of {} consistent states S0 (batch load of a designed workspace of the main universe or of one of the five split-declaration workspaces [a type declared in two files where only one file carries the super type / generic parameters / fields / operators+overload / enum fields+alias origin, plus an observer file]; + reindex; + every single edit then reindex{}) every sequence of ≤{depth_all} ops (≤{depth_deep} for the first {n_deep} main workspaces and every split workspace) over {{update_file_by_uri(f, variant v) for every live f and every v (v = current: re-submission; else edit, judged once restored), update_files_by_uri re-submission of every pair/triple/all live files in every H2 seam order (depth ≥2: pairs in both orders, all files in identity and reverse order)}}; oracle at every state whose contents equal S0's: observable dump (diagnostics, per-token type/decl/definition/hover doc, per-expression type, references, members, globals, types, operators, module records, require resolution) identical to S0's and every H1 index size ≤ S0's; states merged on (contents, dump hash, size report); S0 excluded when three fresh analyses of it disagree",
        prefixes.len(),
        if thorough { " and every pair of edits then reindex" } else { "" }
    );
    rep.exhaustive = exhaustive;
    rep.bounds = json!({"workspaces": wss.len(), "start_states": prefixes.len(), "depth_all": depth_all, "depth_deep": depth_deep, "depth_completed": completed_depth, "wall_cap_s": args.wall_cap_s, "wall_cap_hit": dl.was_hit()});
    finish_mc(rep, args, all, cnt, unstable.into_inner(), &cache)
}

fn finish_mc(mut rep: Report, args: &Args, all: Stats, cnt: Counters, unstable: u64, cache: &FreshCache) -> ! {
    rep.set("states", json!(cnt.states));
    rep.set("transitions", json!(cnt.transitions));
    rep.set("traces_validated_against_impl", json!(cnt.transitions));
    rep.set("max_depth", json!(cnt.max_depth));
    rep.set("distinct_dumps", json!(cnt.distinct_dumps.len()));
    rep.set("excluded_unstable_fresh", json!(unstable));
    rep.set("fresh_references_computed", json!(cache.computed.load(std::sync::atomic::Ordering::Relaxed)));
    rep.assumptions = vec![
        "every transition is executed on the real EmmyLuaAnalysis (std library loaded); the abstract model only predicts file ids and contents".into(),
        "observables are those reachable through SemanticModel, the indexes' query API and diagnose_file; LSP-layer rendering (hover markdown, completion lists) is not part of this engine".into(),
        "hash containers that are not behind an H2 seam keep their in-process order; the seams run in canonical (sorted) order unless a permutation is installed".into(),
    ];
    rep.finish(args, all)
}

// ------------------------------------------------------------------ C09

fn c09_alphabet(case: &Case, m: &Model, files: &[&str]) -> Vec<Op> {
    let mut out = set_ops(case, m, false, files);
    for f in files {
        out.push(Op::Close { f: f.to_string() });
        if m.files.contains_key(*f) {
            out.push(Op::Remove { f: f.to_string() });
        }
    }
    // batches: load everything at variant 1; close every live file; mixed pair (one edit + one close)
    out.push(Op::Batch { items: files.iter().map(|f| (f.to_string(), Some(1.min(case.texts.get(*f).map(|t| t.len()).unwrap_or(1).saturating_sub(1))))).collect(), order: None, rorder: None });
    let live = m.live();
    if live.len() >= 2 {
        out.push(Op::Batch { items: live.iter().map(|(f, _)| (f.clone(), None)).collect(), order: None, rorder: None });
        let (f0, v0) = &live[0];
        let nv = case.texts[f0].len();
        out.push(Op::Batch { items: vec![(f0.clone(), Some((v0 + 1) % nv)), (live[1].0.clone(), None)], order: Some(vec![0]), rorder: Some(vec![1, 0]) });
    }
    for c in 0..case.configs.len() {
        if c != m.config {
            out.push(Op::Config { c });
        }
    }
    out.push(Op::Reindex);
    out
}

pub fn run_c09(args: &Args) -> ! {
    let dl = args.deadline();
    let mut rep = Report::new("C09", "model_checking");
    let thorough = args.tier == Tier::Thorough;
    let files: Vec<&str> = if thorough { u::FILES.to_vec() } else { vec![u::A, u::B, u::C, u::L] };
    let base = u::base_case(&files);
    let wss: Vec<Vec<(&str, usize)>> = u::workspaces(false).into_iter().filter(|w| w.iter().all(|x| files.contains(&x.0))).collect();
    // (universe index, ops): universe 0 is the main one, the others are the split-declaration workspaces
    let mut bases: Vec<Case> = vec![base.clone()];
    let mut prefixes: Vec<(usize, Vec<Op>)> = vec![(0, vec![])];
    for w in wss.iter().take(if thorough { 6 } else { 3 }) {
        prefixes.push((0, vec![u::load(w)]));
    }
    for ws in u::split_workspaces() {
        bases.push(ws.base.clone());
        prefixes.push((bases.len() - 1, vec![u::load_s(&ws.assign)]));
    }
    let depth = if thorough { 3 } else { 2 };
    let cache = FreshCache::default();
    let raws = Mutex::new(RawSink::default());
    let unstable = std::sync::atomic::AtomicU64::new(0);
    let mut all = Stats::default();
    let mut cnt = Counters::default();
    let mut frontier: Vec<(usize, Vec<Op>)> = (0..prefixes.len()).map(|i| (i, vec![])).collect();
    let mut visited: HashSet<String> = HashSet::new();
    cnt.states = prefixes.len() as u64;
    let mut completed = 0;
    let mut exhaustive = true;
    for d in 1..=depth {
        let mut trans: Vec<(usize, Vec<Op>)> = Vec::new();
        for (pi, suffix) in &frontier {
            let (bi, pre) = &prefixes[*pi];
            let mut ops = pre.clone();
            ops.extend(suffix.iter().cloned());
            let m = Model::of(&ops);
            let ufiles: Vec<&str> = if *bi == 0 { files.clone() } else { bases[*bi].texts.keys().map(|k| k.as_str()).collect() };
            for a in c09_alphabet(&bases[*bi], &m, &ufiles) {
                let mut s = suffix.clone();
                s.push(a);
                trans.push((*pi, s));
            }
        }
        let results: Mutex<Vec<(usize, String)>> = Mutex::new(Vec::new());
        let (st, done) = par_batches(trans.len() as u64, args.threads, &dl, &raws, (d as u64) << 32, |i, st| {
            let (pi, suffix) = &trans[i as usize];
            let mut case = bases[prefixes[*pi].0].clone();
            case.ops = prefixes[*pi].1.clone();
            case.ops.extend(suffix.iter().cloned());
            let v = c09_check(&case, Some(&cache));
            st.eval(!Model::of(&case.ops).live().is_empty());
            record(&v, &case, ((d as u64) << 32) | i, st, &raws, &unstable);
            if i % 499 == 3 {
                st.sample(|| json!({"history": case.describe(), "then": "reindex vs fresh", "findings": v.findings.iter().map(|f| f.class.clone()).collect::<Vec<_>>()}));
            }
            results.lock().unwrap().push((i as usize, v.key));
        });
        all.merge(st);
        let mut res = results.into_inner().unwrap();
        res.sort();
        cnt.transitions += res.len() as u64;
        let mut next = Vec::new();
        for (i, key) in res {
            cnt.distinct_dumps.insert(key.split('|').nth(2).unwrap_or("").to_string());
            if visited.insert(key) {
                cnt.states += 1;
                next.push(trans[i].clone());
            }
        }
        if !done {
            exhaustive = false;
            break;
        }
        completed = d;
        cnt.max_depth = d;
        frontier = next;
    }
    let raws = raws.into_inner().unwrap();
    finalize("C09", raws, &|c, class| if c09_valid(c) { c09_check(c, None).findings.into_iter().find(|f| f.class == class).map(|f| f.detail) } else { None }, &mut all, args.threads, 3, &dl);
    rep.rule = format!(
        "family B: from the empty analysis, {} batch-loaded workspaces of the main universe and the five batch-loaded split-declaration workspaces (type declared in two files, one carrying super / generics / fields / operators / enum+alias, plus an observer), every history of ≤{depth} ops over {{update_file_by_uri(f,v) for all {} files × variants, update_file_by_uri(f,None), remove_file_by_uri(f), three update_files_by_uri batches (load all, close all, edit+close with permuted seams), update_config to each of {} configurations, reindex}} (states merged on contents+file-id order+dump hash+size report); oracle in every state: reindex() then the observable dump equals that of a fresh analysis that batch-loads the surviving files in the same file-id order under the final configuration (fresh reference computed three times; excluded if unstable); undecided when a file was parsed under an older configuration whose parse differs (reindex does not re-parse and the statement does not say it should)",
        prefixes.len() - 1 - (bases.len() - 1),
        files.len(),
        base.configs.len()
    );
    rep.exhaustive = exhaustive;
    rep.bounds = json!({"files": files.len(), "configs": base.configs.len(), "start_states": prefixes.len(), "depth": depth, "depth_completed": completed, "wall_cap_s": args.wall_cap_s, "wall_cap_hit": dl.was_hit()});
    finish_mc(rep, args, all, cnt, unstable.into_inner(), &cache)
}

// ------------------------------------------------------------------ C10

pub fn run_c10(args: &Args) -> ! {
    let dl = args.deadline();
    let mut rep = Report::new("C10", "model_checking");
    let thorough = args.tier == Tier::Thorough;
    let mut wss = u::all_workspaces(false);
    if thorough {
        for w in [vec![(u::A, 0), (u::B, 0), (u::C, 0), (u::L, 0), (u::D, 0)], vec![(u::A, 0), (u::B, 1), (u::C, 1), (u::L, 1), (u::D, 1)], vec![(u::A, 1), (u::B, 2), (u::C, 0), (u::L, 0), (u::D, 1)]] {
            wss.push(u::Ws { name: "main", base: u::base_case(&u::FILES), assign: w.iter().map(|(f, v)| (f.to_string(), *v)).collect(), split: false });
        }
        // split workspaces with the second file also contributing
        for mut ws in u::split_workspaces() {
            ws.assign[1].1 = 1;
            wss.push(ws);
        }
    }
    // histories: add (batch, or one by one + reindex), then remove every subset in every order by every method
    let mut cases: Vec<Case> = Vec::new();
    for ws in &wss {
        let base = &ws.base;
        let w: Vec<(&str, usize)> = ws.assign.iter().map(|(f, v)| (f.as_str(), *v)).collect();
        let n = w.len();
        let adds: Vec<Vec<Op>> = vec![
            vec![u::load(&w)],
            w.iter().map(|(f, v)| Op::Set { f: f.to_string(), v: *v }).chain(std::iter::once(Op::Reindex)).collect(),
        ];
        for add in &adds {
            for mask in 1u32..(1 << n) {
                let subset: Vec<&str> = (0..n).filter(|i| mask & (1 << i) != 0).map(|i| w[i].0).collect();
                for p in permutations(subset.len()) {
                    let methods: Vec<u8> = if thorough && subset.len() == 2 { vec![0, 1, 2, 3] } else { vec![0, 1] };
                    for m in methods {
                        let mut c = base.clone();
                        c.ops = add.clone();
                        for (j, pi) in p.iter().enumerate() {
                            let f = subset[*pi].to_string();
                            // 0: all remove, 1: all close, 2/3: mixed
                            let remove = match m {
                                0 => true,
                                1 => false,
                                2 => j % 2 == 0,
                                _ => j % 2 == 1,
                            };
                            c.ops.push(if remove { Op::Remove { f } } else { Op::Close { f } });
                        }
                        cases.push(c);
                    }
                }
                // one batched update with None for the whole subset
                let mut c = base.clone();
                c.ops = add.clone();
                c.ops.push(Op::Batch { items: subset.iter().map(|f| (f.to_string(), None)).collect(), order: None, rorder: None });
                cases.push(c);
            }
        }
    }
    let cache = FreshCache::default();
    let raws = Mutex::new(RawSink::default());
    let unstable = std::sync::atomic::AtomicU64::new(0);
    let keys: Mutex<BTreeSet<String>> = Mutex::new(BTreeSet::new());
    let (mut all, done) = par_batches(cases.len() as u64, args.threads, &dl, &raws, 0, |i, st| {
        let case = &cases[i as usize];
        let v = c10_check(case, Some(&cache));
        st.eval(!Model::of(&case.ops).live().is_empty());
        record(&v, case, i, st, &raws, &unstable);
        if i % 211 == 5 {
            st.sample(|| json!({"history": case.describe(), "findings": v.findings.iter().map(|f| f.class.clone()).collect::<Vec<_>>()}));
        }
        keys.lock().unwrap().insert(v.key);
    });
    let raws = raws.into_inner().unwrap();
    finalize("C10", raws, &|c, class| if c10_valid(c) { c10_check(c, None).findings.into_iter().find(|f| f.class == class).map(|f| f.detail) } else { None }, &mut all, args.threads, 3, &dl);
    let keys = keys.into_inner().unwrap();
    let mut cnt = Counters::default();
    cnt.states = keys.len() as u64;
    cnt.transitions = all.evaluations;
    cnt.max_depth = cases.iter().map(|c| c.ops.len()).max().unwrap_or(0);
    cnt.distinct_dumps = keys.iter().map(|k| k.split('|').nth(2).unwrap_or("").to_string()).collect();
    rep.rule = format!(
        "family B: for each of {} designed workspaces (≤{} files: globals, split/partial classes, members, modules incl. init.lua and a duplicate module name, operators, a library file; plus five split-declaration workspaces: a type declared in two files with only one carrying the super type / generics / fields / operators / enum+alias, and an observer file) added by one batch load or by single updates + reindex, every non-empty subset of its files is removed in every order by remove_file_by_uri, by update_file_by_uri(None){} and by one update_files_by_uri batch of None; oracle in the final state (the set of histories is prefix-closed): (i) no dump line mentions the path or a dead file id of a removed file, (ii) H1 file_refs of the removed id is 0 in every index and the VFS (not judged: a live file's own dependency edge; the path registration that update(None) keeps by design), (iii) the dump equals that of a fresh batch load of the remaining files in the same file-id order",
        wss.len(),
        wss.iter().map(|w| w.assign.len()).max().unwrap_or(0),
        if thorough { ", mixed methods for pairs," } else { "" }
    );
    rep.exhaustive = done;
    rep.bounds = json!({"workspaces": wss.len(), "histories": cases.len(), "wall_cap_s": args.wall_cap_s, "wall_cap_hit": dl.was_hit()});
    finish_mc(rep, args, all, cnt, unstable.into_inner(), &cache)
}

// ------------------------------------------------------------------ C11

pub fn run_c11(args: &Args) -> ! {
    let dl = args.deadline();
    let mut rep = Report::new("C11", "model_checking");
    let thorough = args.tier == Tier::Thorough;
    // workspaces: the C08 universe + order-sensitive ones
    let mut bases: Vec<(Case, Vec<(String, usize)>)> = Vec::new();
    for w in u::workspaces(false) {
        bases.push((u::base_case(&u::FILES), w.iter().map(|(f, v)| (f.to_string(), *v)).collect()));
    }
    for (texts, w) in u::order_workspaces() {
        bases.push((Case { texts, configs: vec![], ops: vec![], seams: Default::default() }, w));
    }
    if thorough {
        bases.push((u::base_case(&u::FILES), vec![(u::A.into(), 0), (u::B.into(), 0), (u::C.into(), 0), (u::L.into(), 0), (u::D.into(), 0)]));
    }
    // phase 0: identity runs, to learn the seam lengths
    let mut cases: Vec<Case> = Vec::new();
    for (base, w) in &bases {
        let k = w.len();
        let items: Vec<(String, Option<usize>)> = w.iter().map(|(f, v)| (f.clone(), Some(*v))).collect();
        let load = |order: Option<Vec<usize>>, rorder: Option<Vec<usize>>| Op::Batch { items: items.clone(), order, rorder };
        let mut id = base.clone();
        id.ops = vec![load(None, None)];
        let seen = build(&id).seen;
        // (a) every order of the updated seam on first load
        for p in seam_orders(k) {
            let mut c = base.clone();
            c.ops = vec![load(Some(p), None)];
            cases.push(c);
        }
        // (b) reload of the whole workspace: updated × removed seams
        let ps = seam_orders(k);
        for p in std::iter::once(None).chain(ps.iter().cloned().map(Some)) {
            for q in std::iter::once(None).chain(ps.iter().cloned().map(Some)) {
                if p.is_none() && q.is_none() {
                    continue;
                }
                if k > 3 && !thorough && p.is_some() && q.is_some() {
                    continue; // deviation ≤ 1 across the two seams for k=4 in the quick tier
                }
                let mut c = base.clone();
                c.ops = vec![load(None, None), load(p.clone(), q.clone())];
                cases.push(c);
            }
        }
        // (c) the other seams (unresolve queue order, workspace grouping), alone and with one updated order
        let mut rev: Vec<usize> = (0..k).collect();
        rev.reverse();
        for (site, lens) in &seen {
            if *site == SEAM_UPDATED || *site == SEAM_REMOVED {
                continue;
            }
            let lens: BTreeSet<usize> = lens.iter().copied().filter(|l| *l >= 2).collect();
            for l in lens {
                for o in seam_orders(l) {
                    for p in [None, Some(rev.clone())] {
                        let mut c = base.clone();
                        c.ops = vec![load(p, None)];
                        c.seams.insert(site.to_string(), o.clone());
                        cases.push(c);
                    }
                }
            }
        }
        // std library load order (a 40-element seam): stated subset
        for so in 1..=3usize {
            let mut c = base.clone();
            c.ops = vec![load(None, None)];
            c.seams.insert("std-order".into(), vec![so]);
            cases.push(c);
        }
    }
    let raws = Mutex::new(RawSink::default());
    let unstable = std::sync::atomic::AtomicU64::new(0);
    let keys: Mutex<BTreeSet<String>> = Mutex::new(BTreeSet::new());
    let (mut all, done) = par_batches(cases.len() as u64, args.threads, &dl, &raws, 0, |i, st| {
        let case = &cases[i as usize];
        let v = c11_check(case);
        st.eval(true);
        if v.unstable {
            st.outcome("identity-run-not-reproducible");
            let mut r = raws.lock().unwrap();
            for f in &v.findings {
                r.push(Raw { case: identity_of(case), class: f.class.clone(), detail: f.detail.clone(), seq: i });
            }
        } else {
            record(&v, case, i, st, &raws, &unstable);
        }
        if i % 97 == 5 {
            st.sample(|| json!({"history": case.describe(), "seams": case.seams, "findings": v.findings.iter().map(|f| f.class.clone()).collect::<Vec<_>>()}));
        }
        keys.lock().unwrap().insert(v.key);
    });
    // (d) ownership check — sampled, labelled: real hash order, fresh hashers ×16 and 4 fresh processes
    let mut sampled = 0u64;
    let mut sampled_bad = 0u64;
    if !dl.expired() {
        for (bi, (base, w)) in bases.iter().enumerate() {
            if dl.expired() {
                break;
            }
            let items: Vec<(String, Option<usize>)> = w.iter().map(|(f, v)| (f.clone(), Some(*v))).collect();
            let mut id = base.clone();
            id.ops = vec![Op::Batch { items: items.clone(), order: None, rorder: None }];
            // dumps reachable through the seams
            let mut reachable: BTreeSet<u64> = BTreeSet::new();
            reachable.insert(crate::dump::dump(&build(&id).an, &id).hash());
            // every order of the load (not the stated subset used above for k > 4)
            for p in permutations(w.len()).into_iter().filter(|p| p.windows(2).any(|x| x[0] > x[1])) {
                let mut c = id.clone();
                c.ops = vec![Op::Batch { items: items.clone(), order: Some(p), rorder: None }];
                reachable.insert(crate::dump::dump(&build(&c).an, &c).hash());
            }
            let mut observed: Vec<(String, u64)> = Vec::new();
            // 16 fresh analyses (fresh hasher instances), run side by side
            let hashes: Vec<u64> = std::thread::scope(|sc| {
                let hs: Vec<_> = (0..16).map(|_| sc.spawn(|| crate::c11x::real_order_dump_hash(&id))).collect();
                hs.into_iter().filter_map(|h| h.join().ok()).collect()
            });
            for (r, h) in hashes.into_iter().enumerate() {
                observed.push((format!("in-process run {r}"), h));
            }
            for r in 0..4 {
                if let Some(h) = crate::c11x::child_dump_hash(args, &id, bi * 10 + r) {
                    observed.push((format!("fresh process {r}"), h));
                }
            }
            for (what, h) in observed {
                sampled += 1;
                all.eval(true);
                if reachable.contains(&h) {
                    all.outcome("sampled:real-hash-order agrees with a seam order");
                } else {
                    sampled_bad += 1;
                    all.outcome("sampled:real-hash-order differs from every seam order");
                    // sampled finding: reported as observed (it cannot be re-executed deterministically, so it is not minimised)
                    all.violation(Violation { signature: "unseamed:sampled".into(), witness: id.compact().to_json(), detail: format!("{what}: dump hash {h:016x} is not among the {} dumps reachable through the load-order seam (sampled, labelled)", reachable.len()) });
                }
            }
        }
    }
    let raws = raws.into_inner().unwrap();
    finalize(
        "C11",
        raws,
        &|c, class| {
            if class.starts_with("unseamed:sampled") {
                return Some("sampled check (not re-executed deterministically)".into());
            }
            if c11_valid(c) { c11_check(c).findings.into_iter().find(|f| f.class == class).map(|f| f.detail) } else { None }
        },
        &mut all,
        args.threads,
        3,
        &dl,
    );
    let keys = keys.into_inner().unwrap();
    let mut cnt = Counters::default();
    cnt.states = keys.len() as u64;
    cnt.transitions = all.evaluations;
    cnt.max_depth = 2;
    cnt.distinct_dumps = keys.iter().map(|k| k.split('|').nth(2).unwrap_or("").to_string()).collect();
    rep.rule = format!(
        "family C-seam: {} workspaces (the C08 universe + one global assigned integer/string/boolean/table in four files, partial classes with conflicting field types, alias cycle, require cycle) with a fixed registration order; (a) first batch load under every order of the `updated` H2 seam (k! for k≤4); (b) batch reload under updated×removed seam orders (all pairs for k≤3, deviation 1 for k=4{}); (c) every order (n! for n≤4, else reverse/rotate/two transpositions) of every length seen at the unresolve-queue and workspace-grouping seams, alone and combined with the reversed load order; std library load order: reverse/rotate/interleave; oracle: dump identical to the identity-order run (which must itself reproduce). Sampled, labelled, supplementary: the identity case with seams off (real hash order) ×8 fresh analyses and ×4 fresh processes must produce a dump that some seam order produces ({sampled} samples, {sampled_bad} outside)",
        bases.len(),
        if thorough { ", all pairs in thorough" } else { "" }
    );
    rep.exhaustive = done;
    rep.bounds = json!({"workspaces": bases.len(), "cases": cases.len(), "sampled": sampled, "wall_cap_s": args.wall_cap_s, "wall_cap_hit": dl.was_hit()});
    let cache = FreshCache::default();
    finish_mc(rep, args, all, cnt, unstable.into_inner(), &cache)
}
