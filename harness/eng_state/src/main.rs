mod c11x;
mod c33;
mod check;
mod dump;
mod search;
mod universe;
mod world;

use vcore::*;

fn replay(args: &Args, prop: &str) -> ! {
    let w = args.replay_witness().unwrap();
    let wit = if w.get("witness").is_some() { w["witness"].clone() } else { w.clone() };
    let sig = w.get("signature").and_then(|s| s.as_str()).unwrap_or("").to_string();
    let Some(case) = world::Case::from_json(&wit) else { die("replay file has no usable witness") };
    let verdict = match prop {
        "C08" => check::c08_check(&case, None),
        "C09" => check::c09_check(&case, None),
        "C10" => check::c10_check(&case, None),
        "C11" => check::c11_check(&case),
        _ => die("no replay for this property"),
    };
    if let Some(u) = &verdict.undecided {
        println!("undecided: {u}");
    }
    for f in &verdict.findings {
        println!("finding {} : {}", f.class, f.detail);
    }
    let hit = verdict.findings.iter().find(|f| sig.is_empty() || f.class == sig).cloned();
    finish_replay(hit.map(|f| Violation { signature: f.class, witness: wit.clone(), detail: f.detail }), prop)
}

fn main() {
    let raw: Vec<String> = std::env::args().collect();
    if raw.len() > 2 && raw[1] == "--child-c11" {
        c11x::child_main(&raw[2]);
    }
    let args = parse_args();
    if args.replay.is_some() && args.prop != "C33" && args.prop != "DUMP" {
        replay(&args, &args.prop.clone());
    }
    match args.prop.as_str() {
        "C08" => search::run_c08(&args),
        "C09" => search::run_c09(&args),
        "C10" => search::run_c10(&args),
        "C11" => search::run_c11(&args),
        "C33" => c33::run(&args),
        "DUMP" => {
            // debugging aid: print the dump of a case file (--replay <case.json>)
            let w = args.replay_witness().unwrap_or_else(|| die("DUMP needs --replay <case.json>"));
            let wit = if w.get("witness").is_some() { w["witness"].clone() } else { w.clone() };
            let case = world::Case::from_json(&wit).unwrap_or_else(|| die("bad case"));
            let b = world::build(&case);
            if let Some((s0, _)) = &b.mark {
                println!("##### at mark\n{}", s0.dump.text());
            }
            println!("##### final\n{}", dump::dump(&b.an, &case).text());
            for (k, v) in dump::sizes(&b.an) {
                println!("size {k} = {v}");
            }
        }
        p => die(&format!("eng_state does not serve {p}")),
    }
}
