//! Cases (files + operation history), the abstract model of the VFS registration rules, and
//! `build`: replay of a history through the real `EmmyLuaAnalysis` API.
use emmylua_code_analysis::{EmmyLuaAnalysis, Emmyrc, WorkspaceFolder, file_path_to_uri, verif_hooks};
use lsp_types::Uri;
use serde::{Deserialize, Serialize};
use serde_json::Value;
use std::collections::BTreeMap;
use std::path::PathBuf;
use std::sync::Arc;

use crate::dump::{Snapshot, snapshot};

/// Virtual root; nothing is ever read from or written to disk below it.
pub const ROOT: &str = "/verifws";
pub const SEAM_UPDATED: &str = "update_files_by_uri.updated";
pub const SEAM_REMOVED: &str = "update_files_by_uri.removed";
pub const SEAM_WORKSPACES: &str = "module_analyze.workspaces";
pub const SEAM_TRY_RESOLVE: &str = "unresolve.try_resolve";
pub const SEAM_RESOLVE_ALL: &str = "unresolve.resolve_all_reason";

pub fn seam_name(s: &str) -> Option<&'static str> {
    [SEAM_UPDATED, SEAM_REMOVED, SEAM_WORKSPACES, SEAM_TRY_RESOLVE, SEAM_RESOLVE_ALL].into_iter().find(|x| *x == s)
}

pub fn abs_path(rel: &str) -> PathBuf {
    PathBuf::from(format!("{ROOT}/{rel}"))
}
pub fn uri_of(rel: &str) -> Uri {
    file_path_to_uri(&abs_path(rel)).expect("uri")
}

#[derive(Clone, Debug, PartialEq, Eq, Serialize, Deserialize)]
#[serde(tag = "op", rename_all = "lowercase")]
pub enum Op {
    /// update_file_by_uri(f, Some(texts[f][v]))
    Set { f: String, v: usize },
    /// update_file_by_uri(f, None)
    Close { f: String },
    /// remove_file_by_uri(f)
    Remove { f: String },
    /// update_files_by_uri(items) with the given orders installed at the two H2 seams
    Batch {
        items: Vec<(String, Option<usize>)>,
        #[serde(default, skip_serializing_if = "Option::is_none")]
        order: Option<Vec<usize>>,
        #[serde(default, skip_serializing_if = "Option::is_none")]
        rorder: Option<Vec<usize>>,
    },
    Reindex,
    /// update_config(configs[c])
    Config { c: usize },
    /// C08: the consistent state S0 is the state at this point
    Mark,
}

impl Op {
    pub fn files(&self) -> Vec<&str> {
        match self {
            Op::Set { f, .. } | Op::Close { f } | Op::Remove { f } => vec![f.as_str()],
            Op::Batch { items, .. } => items.iter().map(|(f, _)| f.as_str()).collect(),
            _ => vec![],
        }
    }
    pub fn short(&self) -> String {
        match self {
            Op::Set { f, v } => format!("set({f},{v})"),
            Op::Close { f } => format!("close({f})"),
            Op::Remove { f } => format!("remove({f})"),
            Op::Batch { items, order, rorder } => {
                let it: Vec<String> = items.iter().map(|(f, v)| format!("{f}:{}", v.map(|v| v.to_string()).unwrap_or("-".into()))).collect();
                format!("batch[{}]{}{}", it.join(","), order.as_ref().map(|o| format!("@{o:?}")).unwrap_or_default(), rorder.as_ref().map(|o| format!("r{o:?}")).unwrap_or_default())
            }
            Op::Reindex => "reindex".into(),
            Op::Config { c } => format!("config({c})"),
            Op::Mark => "mark".into(),
        }
    }
}

#[derive(Clone, Debug, PartialEq, Eq, Serialize, Deserialize, Default)]
pub struct Case {
    /// rel path ("main/a.lua", "lib/x.lua") -> content variants
    pub texts: BTreeMap<String, Vec<String>>,
    /// configs[0] is installed before the std library is loaded
    #[serde(default, skip_serializing_if = "Vec::is_empty")]
    pub configs: Vec<Value>,
    pub ops: Vec<Op>,
    /// orders installed for the whole replay at other seams (site -> order)
    #[serde(default, skip_serializing_if = "BTreeMap::is_empty")]
    pub seams: BTreeMap<String, Vec<usize>>,
}

impl Case {
    pub fn text(&self, f: &str, v: usize) -> &str {
        self.texts.get(f).and_then(|t| t.get(v)).map(|s| s.as_str()).unwrap_or("")
    }
    pub fn config(&self, c: usize) -> Arc<Emmyrc> {
        let v = self.configs.get(c).cloned().unwrap_or(Value::Object(Default::default()));
        Arc::new(serde_json::from_value::<Emmyrc>(v).unwrap_or_default())
    }
    pub fn to_json(&self) -> Value {
        serde_json::to_value(self).unwrap()
    }
    pub fn from_json(v: &Value) -> Option<Case> {
        serde_json::from_value(v.clone()).ok()
    }
    pub fn describe(&self) -> String {
        self.ops.iter().map(|o| o.short()).collect::<Vec<_>>().join(" ; ")
    }
    /// drop unused files / variants / configs and renumber (canonical form of a witness)
    pub fn compact(&self) -> Case {
        let mut used: BTreeMap<String, Vec<usize>> = BTreeMap::new();
        let mut used_cfg: Vec<usize> = vec![0];
        for op in &self.ops {
            match op {
                Op::Set { f, v } => used.entry(f.clone()).or_default().push(*v),
                Op::Batch { items, .. } => {
                    for (f, v) in items {
                        let e = used.entry(f.clone()).or_default();
                        if let Some(v) = v {
                            e.push(*v)
                        }
                    }
                }
                Op::Close { f } | Op::Remove { f } => {
                    used.entry(f.clone()).or_default();
                }
                Op::Config { c } => used_cfg.push(*c),
                _ => {}
            }
        }
        used_cfg.sort();
        used_cfg.dedup();
        let mut out = Case { seams: self.seams.clone(), ..Default::default() };
        let mut vmap: BTreeMap<(String, usize), usize> = BTreeMap::new();
        for (f, vs) in &mut used {
            vs.sort();
            vs.dedup();
            let mut texts = Vec::new();
            for (n, v) in vs.iter().enumerate() {
                vmap.insert((f.clone(), *v), n);
                texts.push(self.text(f, *v).to_string());
            }
            out.texts.insert(f.clone(), texts);
        }
        let all_default = used_cfg.iter().all(|c| self.configs.get(*c).is_none_or(|v| v.as_object().is_some_and(|o| o.is_empty())));
        if !(used_cfg.len() == 1 && all_default) {
            for c in &used_cfg {
                out.configs.push(self.configs.get(*c).cloned().unwrap_or(Value::Object(Default::default())));
            }
        }
        let cmap = |c: usize| used_cfg.iter().position(|x| *x == c).unwrap_or(0);
        for op in &self.ops {
            out.ops.push(match op {
                Op::Set { f, v } => Op::Set { f: f.clone(), v: vmap[&(f.clone(), *v)] },
                Op::Batch { items, order, rorder } => Op::Batch {
                    items: items.iter().map(|(f, v)| (f.clone(), v.map(|v| vmap[&(f.clone(), v)]))).collect(),
                    order: order.clone(),
                    rorder: rorder.clone(),
                },
                Op::Config { c } => Op::Config { c: cmap(*c) },
                o => o.clone(),
            });
        }
        out
    }
}

// ------------------------------------------------------------------ abstract model

/// What the VFS registration rules make of a history (mirrors `Vfs::file_id`, `set_file_content`,
/// `remove_file`): which id every path has, which variant it currently holds.
#[derive(Clone, Debug, PartialEq, Eq, Default)]
pub struct Model {
    pub next_id: u32,
    /// path -> (id, current variant (None = registered without content), config index when last set)
    pub files: BTreeMap<String, (u32, Option<usize>, usize)>,
    pub config: usize,
    /// ids of files that were removed by `remove_file_by_uri` / emptied by update(None): (path, id, by_remove)
    pub gone: Vec<(String, u32, bool)>,
}

impl Model {
    fn touch(&mut self, f: &str, v: Option<usize>) {
        let cfg = self.config;
        if let Some(e) = self.files.get_mut(f) {
            if v.is_none() && e.1.is_some() {
                self.gone.push((f.to_string(), e.0, false));
            }
            e.1 = v;
            e.2 = cfg;
        } else {
            let id = self.next_id;
            self.next_id += 1;
            self.files.insert(f.to_string(), (id, v, cfg));
        }
    }
    pub fn apply(&mut self, op: &Op) {
        match op {
            Op::Set { f, v } => self.touch(f, Some(*v)),
            Op::Close { f } => self.touch(f, None),
            Op::Remove { f } => {
                if let Some(e) = self.files.remove(f) {
                    self.gone.push((f.clone(), e.0, true));
                }
            }
            Op::Batch { items, .. } => {
                for (f, v) in items {
                    self.touch(f, *v);
                }
            }
            Op::Config { c } => self.config = *c,
            Op::Reindex | Op::Mark => {}
        }
    }
    pub fn of(ops: &[Op]) -> Model {
        let mut m = Model::default();
        for op in ops {
            m.apply(op);
        }
        m
    }
    /// live files in file-id order
    pub fn live(&self) -> Vec<(String, usize)> {
        let mut v: Vec<(u32, String, usize)> = self.files.iter().filter_map(|(f, (id, var, _))| var.map(|x| (*id, f.clone(), x))).collect();
        v.sort();
        v.into_iter().map(|(_, f, x)| (f, x)).collect()
    }
    /// the part of the state that decides what a fresh analysis would see
    pub fn abstract_key(&self) -> String {
        format!("{:?}|cfg{}", self.live(), self.config)
    }
    /// files whose content was parsed under a different config than the current one
    pub fn parsed_under_other_config(&self) -> Vec<String> {
        self.files.iter().filter(|(_, (_, v, c))| v.is_some() && *c != self.config).map(|(f, _)| f.clone()).collect()
    }
}

// ------------------------------------------------------------------ replay on the real code

pub struct Built {
    pub an: EmmyLuaAnalysis,
    pub model: Model,
    /// snapshot taken at the `Mark` op (C08's S0), if any
    pub mark: Option<(Snapshot, Model)>,
    /// lengths seen at every seam during the replay (after the std library was loaded)
    pub seen: Vec<(&'static str, Vec<usize>)>,
}

fn reset_seams(case: &Case) {
    verif_hooks::clear_orders();
    verif_hooks::set_canonical(true);
    for (site, order) in &case.seams {
        if let Some(s) = seam_name(site) {
            verif_hooks::install_order(s, order.clone());
        }
    }
}

fn std_len() -> usize {
    static L: std::sync::OnceLock<usize> = std::sync::OnceLock::new();
    *L.get_or_init(|| {
        verif_hooks::clear_orders();
        verif_hooks::set_canonical(true);
        let mut an = EmmyLuaAnalysis::new();
        an.init_std_lib(None);
        let n = verif_hooks::seen_lengths().iter().find(|(s, _)| *s == SEAM_UPDATED).and_then(|(_, l)| l.first().copied()).unwrap_or(0);
        verif_hooks::clear_orders();
        n
    })
}

/// stated subset of orders in which the std library files are analysed: 0 identity (sorted by
/// file id), 1 reverse, 2 rotated by a third, 3 even positions first
fn std_order(kind: usize) -> Option<Vec<usize>> {
    let n = std_len();
    let id: Vec<usize> = (0..n).collect();
    match kind {
        1 => Some(id.into_iter().rev().collect()),
        2 => {
            let mut v = id;
            v.rotate_left(n / 3);
            Some(v)
        }
        3 => Some(id.iter().copied().filter(|i| i % 2 == 0).chain(id.iter().copied().filter(|i| i % 2 == 1)).collect()),
        _ => None,
    }
}

/// a fresh analysis with the std library and the two workspace roots; `canonical=false` leaves
/// every hash container in its own (random) order — used only by the labelled sampled check
pub fn new_analysis(cfg0: Arc<Emmyrc>, canonical: bool, std_kind: usize) -> EmmyLuaAnalysis {
    let order = if canonical { std_order(std_kind) } else { None };
    verif_hooks::clear_orders();
    if canonical {
        verif_hooks::set_canonical(true);
    }
    if let Some(o) = order {
        verif_hooks::install_order(SEAM_UPDATED, o);
    }
    let mut an = EmmyLuaAnalysis::new();
    an.update_config(cfg0);
    an.init_std_lib(None);
    an.add_main_workspace(abs_path("main"));
    an.add_library_workspace(&WorkspaceFolder::new(abs_path("lib"), true));
    verif_hooks::clear_orders();
    if canonical {
        verif_hooks::set_canonical(true);
    }
    an
}

pub fn apply_op(an: &mut EmmyLuaAnalysis, case: &Case, op: &Op) {
    match op {
        Op::Set { f, v } => {
            an.update_file_by_uri(&uri_of(f), Some(case.text(f, *v).to_string()));
        }
        Op::Close { f } => {
            an.update_file_by_uri(&uri_of(f), None);
        }
        Op::Remove { f } => {
            an.remove_file_by_uri(&uri_of(f));
        }
        Op::Batch { items, order, rorder } => {
            if let Some(o) = order {
                verif_hooks::install_order(SEAM_UPDATED, o.clone());
            }
            if let Some(o) = rorder {
                verif_hooks::install_order(SEAM_REMOVED, o.clone());
            }
            let files = items.iter().map(|(f, v)| (uri_of(f), v.map(|v| case.text(f, v).to_string()))).collect();
            an.update_files_by_uri(files);
        }
        Op::Reindex => an.reindex(),
        Op::Config { c } => an.update_config(case.config(*c)),
        Op::Mark => {}
    }
}

/// Replay the whole history of `case` on a fresh analysis.
pub fn build(case: &Case) -> Built {
    let std_kind = case.seams.get("std-order").and_then(|v| v.first().copied()).unwrap_or(0);
    let mut an = new_analysis(case.config(0), true, std_kind);
    reset_seams(case);
    let mut model = Model::default();
    let mut mark = None;
    let mut seen_all: BTreeMap<&'static str, Vec<usize>> = BTreeMap::new();
    for op in &case.ops {
        if let Op::Mark = op {
            mark = Some((snapshot(&an, case), model.clone()));
            continue;
        }
        reset_seams(case); // per-op orders of the previous op end here; recorded lengths restart
        apply_op(&mut an, case, op);
        for (s, l) in verif_hooks::seen_lengths() {
            seen_all.entry(s).or_default().extend(l);
        }
        model.apply(op);
    }
    let seen = seen_all.into_iter().collect();
    verif_hooks::clear_orders();
    Built { an, model, mark, seen }
}

/// The reference for C09/C10: a fresh analysis that registers the live files of `model` in the
/// same file-id order (one batch load = one full analysis) under the final configuration.
pub fn fresh(case: &Case, model: &Model, canonical: bool) -> EmmyLuaAnalysis {
    let mut an = new_analysis(case.config(0), canonical, 0);
    if model.config != 0 {
        an.update_config(case.config(model.config));
    }
    let files: Vec<(Uri, Option<String>)> = model.live().iter().map(|(f, v)| (uri_of(f), Some(case.text(f, *v).to_string()))).collect();
    if !files.is_empty() {
        an.update_files_by_uri(files);
    }
    verif_hooks::clear_orders();
    an
}
