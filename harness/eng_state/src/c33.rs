//! C33 — require paths resolve to the files the configured patterns select.
//! Workspace trees × require strings × configurations, judged against an independent resolver
//! only where the statement is unambiguous; plus seam orders, rebuilds and add/remove histories.
use emmylua_code_analysis::{EmmyLuaAnalysis, Emmyrc, LuaType, RenderLevel, humanize_type, parse_require_module_info};
use emmylua_parser::{LuaAstNode, LuaCallExpr, LuaLocalStat};
use serde_json::{Value, json};
use std::collections::{BTreeMap, BTreeSet};
use std::sync::Mutex;
use vcore::*;

use crate::check::{Finding, minimise};
use crate::dump::fname;
use crate::search::seam_orders;
use crate::world::*;

pub const PATHS: [&str; 9] =
    ["main/a.lua", "main/a/init.lua", "main/a/b.lua", "main/b.lua", "main/lib/a.lua", "main/x/a/b.lua", "main/a.luau", "lib/a.lua", "lib/b.lua"];
pub const REQUIRES: [&str; 7] = ["a", "a.b", "b", "a/b", "x.a.b", "lib.a", "c"];
pub const PROBE: &str = "main/probe.lua";

pub fn configs() -> Vec<(&'static str, Value)> {
    vec![
        ("default", json!({})),
        ("extensions+luau", json!({"runtime": {"extensions": [".lua", ".luau"]}})),
        ("pattern ?.lua only", json!({"runtime": {"requirePattern": ["?.lua"]}})),
        ("patterns ?/init.lua ?.lua lib/?.lua", json!({"runtime": {"requirePattern": ["?/init.lua", "lib/?.lua"]}})),
        ("moduleMap ^x\\.(.*)$ -> $1", json!({"workspace": {"moduleMap": [{"pattern": "^x\\.(.*)$", "replace": "$1"}]}})),
        ("strict.requirePath", json!({"strict": {"requirePath": true}})),
    ]
}

fn ident(path: &str) -> String {
    format!("id_{}", path.replace(['/', '.'], "_"))
}

fn module_text(path: &str) -> String {
    format!("return {{ {} = true }}\n", ident(path))
}

fn probe_text() -> String {
    let mut s = String::new();
    for (i, r) in REQUIRES.iter().enumerate() {
        s.push_str(&format!("local m{i} = require(\"{r}\")\n"));
    }
    s
}

pub fn tree_case(tree: &[&str], cfg: &Value) -> Case {
    let mut texts: BTreeMap<String, Vec<String>> = BTreeMap::new();
    for p in tree {
        texts.insert(p.to_string(), vec![module_text(p)]);
    }
    texts.insert(PROBE.to_string(), vec![probe_text()]);
    let mut items: Vec<(String, Option<usize>)> = tree.iter().map(|p| (p.to_string(), Some(0))).collect();
    items.push((PROBE.to_string(), Some(0)));
    Case { texts, configs: vec![cfg.clone()], ops: vec![Op::Batch { items, order: None, rorder: None }], seams: Default::default() }
}

// ------------------------------------------------------------------ independent resolver

/// the `?` patterns a configuration defines (statement: `?.lua`, `?/init.lua` or custom)
fn patterns(cfg: &Emmyrc) -> Vec<String> {
    let mut exts: Vec<String> = cfg.runtime.extensions.iter().map(|e| e.trim_start_matches("*.").trim_start_matches('.').to_string()).collect();
    if !exts.contains(&"lua".to_string()) {
        exts.push("lua".into());
    }
    let mut out: Vec<String> = exts.iter().map(|e| format!("?.{e}")).collect();
    if cfg.runtime.require_pattern.is_empty() {
        out.extend(exts.iter().map(|e| format!("?/init.{e}")));
    } else {
        out.extend(cfg.runtime.require_pattern.iter().cloned());
    }
    out
}

/// every module name under which `rel` (path relative to its root) can be required
fn names_of(rel: &str, pats: &[String]) -> BTreeSet<String> {
    let mut out = BTreeSet::new();
    for p in pats {
        let Some((pre, post)) = p.split_once('?') else { continue };
        if rel.len() >= pre.len() + post.len() && rel.starts_with(pre) && rel.ends_with(post) {
            let mid = &rel[pre.len()..rel.len() - post.len()];
            if !mid.is_empty() {
                out.insert(mid.replace('/', "."));
            }
        }
    }
    out
}

fn rel_in_root(path: &str) -> &str {
    path.split_once('/').map(|x| x.1).unwrap_or(path)
}

struct Reference {
    candidates: Vec<String>,
    /// the moduleMap rule touches the require string or a module name: the statement's
    /// "with module-map rewrites applied" leaves the combination open
    map_involved: bool,
}

fn reference(live: &[String], r: &str, cfg: &Emmyrc) -> Reference {
    let pats = patterns(cfg);
    let want = r.replace('/', ".");
    let mut candidates = Vec::new();
    let mut map_involved = false;
    let rules: Vec<String> = cfg.workspace.module_map.iter().map(|m| m.pattern.clone()).collect();
    let touched = |name: &str| rules.iter().any(|p| p == "^x\\.(.*)$" && name.starts_with("x."));
    if touched(&want) {
        map_involved = true;
    }
    for f in live {
        if f == PROBE {
            continue;
        }
        let names = names_of(rel_in_root(f), &pats);
        if names.iter().any(|n| touched(n)) {
            map_involved = true;
        }
        if names.contains(&want) {
            candidates.push(f.clone());
        }
    }
    Reference { candidates, map_involved }
}

// ------------------------------------------------------------------ observation

fn find(an: &EmmyLuaAnalysis, r: &str) -> Option<String> {
    let db = an.compilation.get_db();
    db.get_module_index().find_module(r).map(|m| fname(db, m.file_id))
}

/// (file designated by go-to-definition on `m_i`'s require, rendered type of the require call)
fn probe_view(an: &EmmyLuaAnalysis, i: usize) -> Option<(Option<String>, String)> {
    let fid = an.get_file_id(&uri_of(PROBE))?;
    let sm = an.compilation.get_semantic_model(fid)?;
    let db = an.compilation.get_db();
    let stat = sm.get_root().descendants::<LuaLocalStat>().nth(i)?;
    let call = stat.syntax().descendants().find_map(LuaCallExpr::cast)?;
    let ty = match sm.infer_expr(call.clone().into()) {
        Ok(t) => humanize_type(db, &t, RenderLevel::Detailed),
        Err(_) => "<unresolved>".to_string(),
    };
    let name = stat.get_local_name_list().next()?;
    let pos = name.get_position();
    let decl_id = emmylua_code_analysis::LuaDeclId::new(fid, pos);
    let decl = db.get_decl_index().get_decl(&decl_id)?;
    let target = parse_require_module_info(&sm, decl).map(|m| fname(db, m.file_id));
    let _ = LuaType::Any;
    Some((target, ty))
}

pub fn c33_eval(case: &Case) -> (Vec<(String, Finding)>, Vec<String>) {
    let mut out: Vec<(String, Finding)> = Vec::new();
    let mut classes = Vec::new();
    let mut b = build(case);
    let cfg = case.config(b.model.config);
    let live: Vec<String> = b.model.live().into_iter().map(|x| x.0).collect();
    let consistent = case.ops.len() == 1;
    let base: Vec<Option<String>> = REQUIRES.iter().map(|r| find(&b.an, r)).collect();
    for (i, r) in REQUIRES.iter().enumerate() {
        let res = &base[i];
        let rf = reference(&live, r, &cfg);
        let mut push = |class: &str, detail: String| out.push((r.to_string(), Finding { class: class.to_string(), detail }));
        if rf.map_involved {
            classes.push("undecided:moduleMap-involved".to_string());
        } else {
            match rf.candidates.len() {
                0 => {
                    if cfg.strict.require_path {
                        if let Some(x) = res {
                            push("strict-no-candidate-but-resolved", format!("require({r:?}) has no file matching a pattern, strict.requirePath is on, yet it resolves to {x}"));
                        } else {
                            classes.push("no-candidate:none".into());
                        }
                    } else {
                        classes.push(if res.is_some() { "no-candidate:fuzzy-hit".into() } else { "no-candidate:none".into() });
                    }
                }
                1 => match res {
                    Some(x) if *x == rf.candidates[0] => classes.push("unique-exact:ok".into()),
                    other => push("unique-exact-not-chosen", format!("require({r:?}): the only file matching a pattern is {}, resolved to {:?}", rf.candidates[0], other)),
                },
                _ => match res {
                    Some(x) if rf.candidates.contains(x) => classes.push("several-exact:one-of-them".into()),
                    other => push("exact-exists-but-other-chosen", format!("require({r:?}): exact candidates {:?}, resolved to {:?}", rf.candidates, other)),
                },
            }
        }
        // go-to-definition and the inferred module type agree with find_module
        if live.iter().any(|f| f == PROBE) {
            if let Some((target, ty)) = probe_view(&b.an, i) {
                if target != *res {
                    push("definition-disagrees", format!("require({r:?}): find_module -> {res:?}, definition of the require -> {target:?}"));
                }
                match res {
                    Some(x) if !ty.contains(&ident(x)) => push("type-disagrees", format!("require({r:?}) resolves to {x} but the call's type is {ty}")),
                    None if ty.contains("id_") => push("type-disagrees", format!("require({r:?}) is unresolved but the call's type is {ty}")),
                    _ => {}
                }
            }
        }
    }
    // the choice is the same for every seam order (fixed registration order), after a rebuild,
    // and equals what a fresh index of the current files gives
    if consistent {
        if let Op::Batch { items, .. } = &case.ops[0] {
            for p in seam_orders(items.len()) {
                let mut c = case.clone();
                c.ops[0] = Op::Batch { items: items.clone(), order: Some(p.clone()), rorder: None };
                let bp = build(&c);
                for (i, r) in REQUIRES.iter().enumerate() {
                    let got = find(&bp.an, r);
                    if got != base[i] {
                        out.push((r.to_string(), Finding { class: "choice-depends-on-seam-order".into(), detail: format!("require({r:?}): {:?} in registration order, {:?} when the batch is analysed in order {p:?}", base[i], got) }));
                    }
                }
            }
        }
    } else {
        let fr = fresh(case, &b.model, true);
        for (i, r) in REQUIRES.iter().enumerate() {
            let want = find(&fr, r);
            if want != base[i] {
                out.push((r.to_string(), Finding { class: "history-differs-from-fresh".into(), detail: format!("require({r:?}): {:?} after the history, {:?} in a fresh index of the same files", base[i], want) }));
            }
        }
    }
    b.an.reindex();
    for (i, r) in REQUIRES.iter().enumerate() {
        let got = find(&b.an, r);
        if got != base[i] {
            out.push((r.to_string(), Finding { class: "choice-changes-on-reindex".into(), detail: format!("require({r:?}): {:?} before, {:?} after reindex", base[i], got) }));
        }
    }
    out.sort();
    out.dedup_by(|a, b| a.0 == b.0 && a.1.class == b.1.class);
    (out, classes)
}

fn witness(case: &Case, r: &str) -> Value {
    json!({"case": case.to_json(), "require": r})
}

pub fn replay(w: &Value, sig: &str) -> Option<Violation> {
    let case = Case::from_json(&w["case"])?;
    let r = w["require"].as_str()?;
    let (f, _) = c33_eval(&case);
    f.into_iter().find(|(rr, f)| rr == r && (sig.is_empty() || f.class == sig)).map(|(_, f)| Violation { signature: f.class, witness: w.clone(), detail: f.detail })
}

fn valid(case: &Case) -> bool {
    // first op loads the tree; later ops only add/remove single files; the probe stays
    matches!(case.ops.first(), Some(Op::Batch { .. })) && case.ops[1..].iter().all(|o| matches!(o, Op::Set { .. } | Op::Remove { .. })) && case.texts.contains_key(PROBE)
}

pub fn run(args: &Args) -> ! {
    if let Some(w) = args.replay_witness() {
        let wit = if w.get("witness").is_some() { w["witness"].clone() } else { w.clone() };
        let sig = w.get("signature").and_then(|s| s.as_str()).unwrap_or("");
        finish_replay(replay(&wit, sig), "C33");
    }
    let dl = args.deadline();
    let mut rep = Report::new("C33", "model_checking");
    let thorough = args.tier == Tier::Thorough;
    let max_files = if thorough { 4 } else { 3 };
    let cfgs = configs();
    let mut trees: Vec<Vec<&str>> = Vec::new();
    for mask in 1u32..(1 << PATHS.len()) {
        if mask.count_ones() as usize <= max_files {
            trees.push((0..PATHS.len()).filter(|i| mask & (1 << i) != 0).map(|i| PATHS[i]).collect());
        }
    }
    // cases: (tree, config) consistent states; then add/remove histories from them
    let mut cases: Vec<Case> = Vec::new();
    for t in &trees {
        for (_, c) in &cfgs {
            cases.push(tree_case(t, c));
        }
    }
    let n_static = cases.len();
    let hist_depth = if thorough { 3 } else { 2 };
    for t in trees.iter().filter(|t| t.len() >= 2 && t.len() <= 3) {
        for (ci, (_, c)) in cfgs.iter().enumerate() {
            // quick: the default configuration and strict.requirePath (without the fuzzy
            // fallback a stale or orphaned module-tree node is not papered over)
            if !thorough && ci != 0 && ci != 5 {
                continue;
            }
            // histories of remove / re-add over the tree's files
            let base = tree_case(t, c);
            let mut frontier: Vec<Vec<Op>> = vec![vec![]];
            for _ in 0..hist_depth {
                let mut next = Vec::new();
                for h in &frontier {
                    let mut ops = base.ops.clone();
                    ops.extend(h.iter().cloned());
                    let m = Model::of(&ops);
                    for f in t {
                        let live = m.files.get(*f).is_some_and(|e| e.1.is_some());
                        let op = if live { Op::Remove { f: f.to_string() } } else { Op::Set { f: f.to_string(), v: 0 } };
                        let mut h2 = h.clone();
                        h2.push(op);
                        let mut c2 = base.clone();
                        c2.ops.extend(h2.iter().cloned());
                        cases.push(c2);
                        next.push(h2);
                    }
                }
                frontier = next;
            }
        }
    }
    let raws: Mutex<Vec<(Case, String, Finding)>> = Mutex::new(Vec::new());
    let states: Mutex<BTreeSet<String>> = Mutex::new(BTreeSet::new());
    let (mut all, done) = par_range(cases.len() as u64, args.threads, &dl, |i, st| {
        let case = &cases[i as usize];
        let (fs, classes) = c33_eval(case);
        for r in REQUIRES {
            st.eval(true);
            if fs.iter().any(|(rr, _)| rr == r) {
                st.outcome("violates");
            } else {
                st.outcome("holds");
            }
        }
        for c in classes {
            if c.starts_with("undecided") {
                st.undecided += 1;
            }
            st.outcome(&c);
        }
        if i % 301 == 7 {
            st.sample(|| json!({"files": case.texts.keys().collect::<Vec<_>>(), "config": case.configs[0], "history": case.describe(), "findings": fs.iter().map(|(r, f)| format!("{r}:{}", f.class)).collect::<Vec<_>>()}));
        }
        states.lock().unwrap().insert(format!("{:?}|{}", Model::of(&case.ops).live(), case.configs[0]));
        if !fs.is_empty() {
            let mut g = raws.lock().unwrap();
            for (r, f) in fs {
                g.push((case.clone(), r, f));
            }
        }
    });
    // minimise: per (class) the first three raw cases in a deterministic order
    let mut raws = raws.into_inner().unwrap();
    raws.sort_by_cached_key(|(c, r, f)| (f.class.clone(), c.ops.len(), c.texts.len(), c.configs[0].to_string(), serde_json::to_string(&c.to_json()).unwrap(), r.clone()));
    let mut per: BTreeMap<String, Vec<(Case, String, Finding)>> = BTreeMap::new();
    for x in raws {
        // one group per (oracle, require string): different require strings never mask each other
        per.entry(format!("{}\u{1}{}", x.2.class, x.1)).or_default().push(x);
    }
    // every raw case is reduced on its own (deterministic function of the case): a run cut short
    // reports a subset of the complete run's fingerprints
    let memo: Mutex<std::collections::HashMap<String, bool>> = Mutex::new(std::collections::HashMap::new());
    let mut jobs: Vec<(String, Case, String, Finding)> = Vec::new();
    for (group, v) in per {
        let class = group.split('\u{1}').next().unwrap_or("").to_string();
        for (case, r, f) in v {
            jobs.push((class.clone(), case, r, f));
        }
    }
    let out: Mutex<Vec<Violation>> = Mutex::new(Vec::new());
    let far = Deadline::after_secs(6.0 * 3600.0);
    let _ = par_range(jobs.len() as u64, args.threads, &far, |i, _| {
        let (class, case, r, f) = &jobs[i as usize];
        let fails = |c: &Case| {
            if !valid(c) {
                return false;
            }
            let key = format!("{class}\u{1}{r}\u{1}{}", serde_json::to_string(&c.to_json()).unwrap_or_default());
            if let Some(b) = memo.lock().unwrap().get(&key) {
                return *b;
            }
            let b = c33_eval(c).0.iter().any(|(rr, ff)| rr == r && ff.class == *class);
            memo.lock().unwrap().insert(key, b);
            b
        };
        if !c33_eval(case).0.iter().any(|(rr, ff)| rr == r && ff.class == *class) {
            out.lock().unwrap().push(Violation { signature: format!("nondeterministic:{class}"), witness: witness(case, r), detail: f.detail.clone() });
            return;
        }
        let mut budget = 250usize;
        let min = minimise(case, &fails, &mut budget);
        let detail = c33_eval(&min).0.into_iter().find(|(rr, ff)| rr == r && ff.class == *class).map(|x| x.1.detail).unwrap_or(f.detail.clone());
        out.lock().unwrap().push(Violation { signature: class.clone(), witness: witness(&min, r), detail: format!("{detail}  (config {}; history: {})", min.configs.first().cloned().unwrap_or(json!({})), min.describe()) });
    });
    let mut res = out.into_inner().unwrap();
    res.sort_by_cached_key(|v| format!("{}:{}", v.signature, v.witness));
    for v in res {
        all.violation(v);
    }
    let states = states.into_inner().unwrap();
    rep.rule = format!(
        "every subset of ≤{max_files} files of {{a.lua, a/init.lua, a/b.lua, b.lua, lib/a.lua, x/a/b.lua, a.luau}} in the main root and {{a.lua, b.lua}} in a library root ({} trees) × {} configurations (default, extensions+.luau, two requirePattern sets, one moduleMap rule, strict.requirePath) batch-loaded together with a probe file that requires each of {:?}; then every remove/re-add history of ≤{hist_depth} steps over trees of 2–3 files; oracles, judged only where the statement is unambiguous: exactly one file matches a pattern ⇒ find_module returns it; some file matches ⇒ the result is one of them (never a fuzzy hit); none matches under strict ⇒ None; the result is identical for every H2 seam order of the load (n! for ≤4 files, else 4 orders), after reindex, and after a history equals a fresh index of the same files; the definition target of the require and the type of the call designate the same file; moduleMap cases that rewrite the require string or a module name are counted undecided for the pattern oracles",
        trees.len(),
        cfgs.len(),
        REQUIRES
    );
    rep.exhaustive = done;
    rep.bounds = json!({"trees": trees.len(), "configs": cfgs.len(), "requires": REQUIRES.len(), "static_cases": n_static, "history_cases": cases.len() - n_static, "history_depth": hist_depth, "wall_cap_s": args.wall_cap_s, "wall_cap_hit": dl.was_hit()});
    rep.set("states", json!(states.len()));
    rep.set("transitions", json!(cases.len()));
    rep.set("traces_validated_against_impl", json!(cases.len()));
    rep.assumptions = vec![
        "the reference resolver is a direct transcription of the statement (a `?` pattern matches the path relative to a workspace root); it is consulted only where exactly one reading exists".into(),
        "go-to-definition is observed through emmylua_code_analysis::parse_require_module_info (what the LSP handler calls), not through the LSP layer".into(),
    ];
    rep.finish(args, all)
}
