//! C11's labelled, sampled ownership check: the identity case with every seam switched off
//! (real hash order), in this process and in fresh processes.
use crate::world::*;
use std::process::Command;

pub fn real_order_dump_hash(case: &Case) -> u64 {
    let mut an = new_analysis(case.config(0), false, 0);
    for op in &case.ops {
        apply_op(&mut an, case, op);
    }
    emmylua_code_analysis::verif_hooks::clear_orders();
    crate::dump::dump(&an, case).hash()
}

pub fn child_dump_hash(args: &vcore::Args, case: &Case, n: usize) -> Option<u64> {
    let work = args.extra.get("work")?;
    let _ = std::fs::create_dir_all(work);
    let p = std::path::Path::new(work).join(format!("c11-case-{n}.json"));
    std::fs::write(&p, serde_json::to_string(&case.to_json()).ok()?).ok()?;
    let exe = std::env::current_exe().ok()?;
    let out = Command::new(exe).arg("--child-c11").arg(&p).output().ok()?;
    let _ = std::fs::remove_file(&p);
    let s = String::from_utf8_lossy(&out.stdout);
    u64::from_str_radix(s.trim(), 16).ok()
}

pub fn child_main(path: &str) -> ! {
    let txt = std::fs::read_to_string(path).unwrap_or_default();
    let v: serde_json::Value = serde_json::from_str(&txt).unwrap_or_default();
    match Case::from_json(&v) {
        Some(c) => {
            println!("{:016x}", real_order_dump_hash(&c));
            std::process::exit(0)
        }
        None => std::process::exit(2),
    }
}
