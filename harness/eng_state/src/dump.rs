//! The observable dump: everything C08/C09/C10/C11 call "observable results", rendered
//! deterministically (every set sorted, file ids replaced by paths), plus the H1 size report.
use emmylua_code_analysis::{
    DbIndex, EmmyLuaAnalysis, FileId, LuaMemberOwner, LuaOperatorMetaMethod, LuaOperatorOwner, LuaSemanticDeclId, LuaType,
    LuaTypeDeclId, RenderLevel, SemanticDeclLevel, humanize_type, verif_hooks,
};
use emmylua_parser::{LuaAstNode, LuaExpr, LuaTokenKind};
use rowan::NodeOrToken;
use std::collections::{BTreeMap, BTreeSet};
use std::fmt::Write;
use tokio_util::sync::CancellationToken;

use crate::world::{Case, ROOT};

#[derive(Clone, Debug, PartialEq, Eq, Default)]
pub struct Dump {
    /// "kind|path" -> rendered text (one fact per line)
    pub sections: BTreeMap<String, String>,
}

#[derive(Clone, Debug, PartialEq, Eq, Default)]
pub struct Snapshot {
    pub dump: Dump,
    pub sizes: Vec<(String, usize)>,
    pub tree_defects: Vec<String>,
}

impl Dump {
    pub fn hash(&self) -> u64 {
        let mut h = 0xcbf29ce484222325u64;
        for (k, v) in &self.sections {
            h = h.rotate_left(5) ^ vcore::fnv(k.as_bytes());
            h = h.rotate_left(5) ^ vcore::fnv(v.as_bytes());
        }
        h
    }
    /// section kinds ("diag", "sem", …) in which `self` and `other` differ
    pub fn diff_kinds(&self, other: &Dump) -> BTreeSet<String> {
        let mut out = BTreeSet::new();
        let keys: BTreeSet<&String> = self.sections.keys().chain(other.sections.keys()).collect();
        for k in keys {
            if self.sections.get(k) != other.sections.get(k) {
                out.insert(k.split('|').next().unwrap_or("").to_string());
            }
        }
        out
    }
    /// first differing line of the first differing section of kind `kind` (or of any kind)
    pub fn first_diff(&self, other: &Dump, kind: Option<&str>) -> String {
        let keys: BTreeSet<&String> = self.sections.keys().chain(other.sections.keys()).collect();
        for k in keys {
            if let Some(kind) = kind {
                if k.split('|').next() != Some(kind) {
                    continue;
                }
            }
            let a = self.sections.get(k).map(|s| s.as_str()).unwrap_or("<section absent>");
            let b = other.sections.get(k).map(|s| s.as_str()).unwrap_or("<section absent>");
            if a == b {
                continue;
            }
            let la: Vec<&str> = a.lines().collect();
            let lb: Vec<&str> = b.lines().collect();
            // lines only in a / only in b
            let sa: BTreeSet<&str> = la.iter().copied().collect();
            let sb: BTreeSet<&str> = lb.iter().copied().collect();
            let only_a = la.iter().find(|l| !sb.contains(*l)).copied().unwrap_or("-");
            let only_b = lb.iter().find(|l| !sa.contains(*l)).copied().unwrap_or("-");
            return format!("[{k}] expected `{}` got `{}`", clip(only_a), clip(only_b));
        }
        String::new()
    }
    pub fn text(&self) -> String {
        let mut s = String::new();
        for (k, v) in &self.sections {
            let _ = writeln!(s, "=== {k}");
            s.push_str(v);
        }
        s
    }
}

fn clip(s: &str) -> String {
    if s.chars().count() > 160 { format!("{}…", s.chars().take(160).collect::<String>()) } else { s.to_string() }
}

/// path of a file id relative to the virtual root; std files by name; unknown ids as "dead"
pub const DEAD: &str = "DEADFILE";

pub fn fname(db: &DbIndex, id: FileId) -> String {
    match db.get_vfs().get_file_path(&id) {
        Some(p) => {
            let s = p.to_string_lossy();
            match s.strip_prefix(ROOT) {
                Some(r) => r.trim_start_matches('/').to_string(),
                None => format!("std:{}", p.file_name().map(|x| x.to_string_lossy().to_string()).unwrap_or_default()),
            }
        }
        None => DEAD.to_string(),
    }
}

fn is_ws(db: &DbIndex, id: FileId) -> bool {
    db.get_vfs().get_file_path(&id).is_some_and(|p| p.starts_with(ROOT))
}

/// workspace files / dead ids mentioned anywhere inside a value (via its Debug rendering)
fn mentioned_files(db: &DbIndex, dbg: &str) -> String {
    let mut set = BTreeSet::new();
    let pat = "FileId { id: ";
    let mut rest = dbg;
    while let Some(i) = rest.find(pat) {
        rest = &rest[i + pat.len()..];
        let n: String = rest.chars().take_while(|c| c.is_ascii_digit()).collect();
        if let Ok(id) = n.parse::<u32>() {
            let f = FileId::new(id);
            if db.get_vfs().get_file_path(&f).is_none() || is_ws(db, f) {
                set.insert(fname(db, f));
            }
        }
    }
    if set.is_empty() { String::new() } else { format!(" @{{{}}}", set.into_iter().collect::<Vec<_>>().join(",")) }
}

pub fn ty_str(db: &DbIndex, ty: &LuaType) -> String {
    let mut s = humanize_type(db, ty, RenderLevel::Detailed).replace('\n', "\\n");
    s.push_str(&mentioned_files(db, &format!("{ty:?}")));
    s
}

fn decl_str(db: &DbIndex, d: &LuaSemanticDeclId) -> String {
    match d {
        LuaSemanticDeclId::TypeDecl(id) => format!("type:{}", id.get_name()),
        LuaSemanticDeclId::Member(id) => format!("member:{}@{}", fname(db, id.file_id), u32::from(id.get_position())),
        LuaSemanticDeclId::LuaDecl(id) => format!("decl:{}@{}", fname(db, id.file_id), u32::from(id.position)),
        LuaSemanticDeclId::Signature(id) => format!("sig:{}@{}", fname(db, id.get_file_id()), u32::from(id.get_position())),
    }
}

fn prop_str(db: &DbIndex, d: &LuaSemanticDeclId) -> Option<String> {
    let p = db.get_property_index().get_property(d)?;
    Some(format!(
        "desc={:?} vis={:?} deprecated={:?} source={:?} tags={:?} features={:?}",
        p.description(),
        p.visibility,
        p.deprecated(),
        p.source(),
        p.tag_content().map(|t| &t.tags),
        p.decl_features
    ))
}

fn range_str(r: rowan::TextRange) -> String {
    format!("{}..{}", u32::from(r.start()), u32::from(r.end()))
}

fn type_in_ws(db: &DbIndex, id: &LuaTypeDeclId) -> bool {
    db.get_type_index().get_type_decl(id).is_some_and(|d| d.get_locations().iter().any(|l| !db.get_module_index().is_std(&l.file_id)))
}

fn sorted(mut v: Vec<String>) -> String {
    v.sort();
    let mut s = String::new();
    for l in v {
        s.push_str(&l);
        s.push('\n');
    }
    s
}

/// require strings probed in every dump: every module name derivable from the case's paths
fn probes(case: &Case) -> Vec<String> {
    let mut set = BTreeSet::new();
    for f in case.texts.keys() {
        let rel = f.split_once('/').map(|x| x.1).unwrap_or(f);
        let stem = rel.strip_suffix(".lua").unwrap_or(rel);
        let dotted = stem.replace('/', ".");
        set.insert(dotted.clone());
        if let Some(p) = dotted.strip_suffix(".init") {
            set.insert(p.to_string());
        }
        if let Some(last) = dotted.rsplit('.').next() {
            set.insert(last.to_string());
        }
    }
    set.insert("nosuch".into());
    set.into_iter().collect()
}

pub fn dump(an: &EmmyLuaAnalysis, case: &Case) -> Dump {
    let db = an.compilation.get_db();
    let mut d = Dump::default();
    let mut ws_files: Vec<FileId> = db.get_vfs().get_all_file_ids().into_iter().filter(|f| is_ws(db, *f)).collect();
    ws_files.sort();

    // registration order of the live workspace files
    d.sections.insert("order|".into(), ws_files.iter().map(|f| fname(db, *f)).collect::<Vec<_>>().join(" < ") + "\n");

    for &fid in &ws_files {
        let path = fname(db, fid);
        // ---- diagnostics
        let mut lines = Vec::new();
        match an.diagnose_file(fid, CancellationToken::new()) {
            Some(ds) => {
                for x in ds {
                    let rel: Vec<String> = x
                        .related_information
                        .unwrap_or_default()
                        .iter()
                        .map(|r| {
                            let p = r.location.uri.as_str();
                            let p = p.split(ROOT).nth(1).map(|s| s.trim_start_matches('/').to_string()).unwrap_or_else(|| "std".to_string());
                            format!("{p}:{:?}:{}", r.location.range, r.message)
                        })
                        .collect();
                    lines.push(format!(
                        "{}:{}-{}:{} {:?} {:?} {:?} {:?} rel={:?}",
                        x.range.start.line, x.range.start.character, x.range.end.line, x.range.end.character, x.code, x.severity, x.message, x.tags, rel
                    ));
                }
            }
            None => lines.push("<no diagnostics run>".into()),
        }
        d.sections.insert(format!("diag|{path}"), sorted(lines));

        // ---- per-token semantic info, definitions, hover docs; per-expression inferred types
        let Some(sm) = an.compilation.get_semantic_model(fid) else { continue };
        let root = sm.get_root().syntax().clone();
        let mut sem = String::new();
        let mut hover = String::new();
        for el in root.descendants_with_tokens() {
            let NodeOrToken::Token(t) = el else { continue };
            let k: LuaTokenKind = t.kind().into();
            if !matches!(k, LuaTokenKind::TkName | LuaTokenKind::TkString | LuaTokenKind::TkLongString) {
                continue;
            }
            let pos = u32::from(t.text_range().start());
            let info = sm.get_semantic_info(NodeOrToken::Token(t.clone()));
            let def = sm.find_decl(NodeOrToken::Token(t.clone()), SemanticDeclLevel::default());
            let (ty, sd) = match &info {
                Some(i) => (ty_str(db, &i.typ), i.semantic_decl.as_ref().map(|x| decl_str(db, x)).unwrap_or("-".into())),
                None => ("-".into(), "-".into()),
            };
            let def_s = def.as_ref().map(|x| decl_str(db, x)).unwrap_or("-".into());
            if info.is_some() || def.is_some() {
                let _ = writeln!(sem, "{pos} {:?} : {ty} | {sd} | def={def_s}", t.text());
            }
            let owner = info.as_ref().and_then(|i| i.semantic_decl.clone()).or(def);
            if let Some(o) = owner {
                if let Some(p) = prop_str(db, &o) {
                    let _ = writeln!(hover, "{pos} {:?} -> {} : {p}", t.text(), decl_str(db, &o));
                }
            }
        }
        d.sections.insert(format!("sem|{path}"), sem);
        d.sections.insert(format!("hover|{path}"), hover);
        let mut ex = String::new();
        for e in sm.get_root().descendants::<LuaExpr>() {
            let r = e.syntax().text_range();
            match sm.infer_expr(e.clone()) {
                Ok(t) => {
                    let _ = writeln!(ex, "{} : {}", range_str(r), ty_str(db, &t));
                }
                Err(_) => {
                    let _ = writeln!(ex, "{} : <unresolved>", range_str(r));
                }
            }
        }
        d.sections.insert(format!("sem|{path}#expr"), ex);

        // ---- local references
        let mut lines = Vec::new();
        if let Some(map) = db.get_reference_index().get_decl_references_map(&fid) {
            for (decl, r) in map {
                let mut cells: Vec<String> = r.cells.iter().map(|c| format!("{}{}", range_str(c.range), if c.is_write { "w" } else { "" })).collect();
                cells.sort();
                lines.push(format!("decl:{}@{} mutable={} refs={}", fname(db, decl.file_id), u32::from(decl.position), r.mutable, cells.join(",")));
            }
        }
        d.sections.insert(format!("refs|{path}"), sorted(lines));

        // ---- module record
        let mut m = String::new();
        match db.get_module_index().get_module(fid) {
            Some(mi) => {
                let _ = writeln!(
                    m,
                    "name={} workspace={} visible={:?} meta={} export={}",
                    mi.full_module_name,
                    mi.workspace_id,
                    mi.visible,
                    mi.is_meta,
                    mi.export_type.as_ref().map(|t| ty_str(db, t)).unwrap_or("-".into())
                );
                let _ = writeln!(m, "semantic={}", mi.semantic_id.as_ref().map(|x| decl_str(db, x)).unwrap_or("-".into()));
            }
            None => m.push_str("<no module>\n"),
        }
        let mut deps: Vec<String> = db.get_file_dependencies_index().get_required_files(&fid).map(|s| s.iter().map(|f| fname(db, *f)).collect()).unwrap_or_default();
        deps.sort();
        let _ = writeln!(m, "requires={deps:?}");
        d.sections.insert(format!("module|{path}"), m);
    }

    // ---- require resolution
    let mut req = String::new();
    for p in probes(case) {
        let r = db.get_module_index().find_module(&p).map(|m| fname(db, m.file_id)).unwrap_or("-".into());
        let _ = writeln!(req, "require({p:?}) -> {r}");
    }
    d.sections.insert("require|".into(), req);

    // ---- types declared (also) outside the std library
    let mut types = Vec::new();
    let mut typedoc = Vec::new();
    let mut members = Vec::new();
    let mut ops = Vec::new();
    let mut trefs = Vec::new();
    for decl in db.get_type_index().get_all_types() {
        let id = decl.get_id();
        if !type_in_ws(db, &id) {
            continue;
        }
        let name = id.get_name().to_string();
        let kind = if decl.is_class() {
            "class"
        } else if decl.is_enum() {
            "enum"
        } else {
            "alias"
        };
        let mut locs: Vec<String> = decl.get_locations().iter().map(|l| format!("{}:{}:{:?}", fname(db, l.file_id), range_str(l.range), l.flag)).collect();
        locs.sort();
        let mut supers: Vec<String> = db.get_type_index().get_super_types(&id).unwrap_or_default().iter().map(|t| ty_str(db, t)).collect();
        supers.sort();
        let generics: Vec<String> = db.get_type_index().get_generic_params(&id).map(|g| g.iter().map(|p| format!("{:?}", p.name)).collect()).unwrap_or_default();
        let alias = decl.get_alias_ref().map(|t| ty_str(db, t)).unwrap_or("-".into());
        types.push(format!("{kind} {name} locs={locs:?} supers={supers:?} generics={generics:?} alias={alias} scope={:?}", scope_str(db, &id)));
        if let Some(p) = prop_str(db, &LuaSemanticDeclId::TypeDecl(id.clone())) {
            typedoc.push(format!("{name} : {p}"));
        }
        member_lines(db, &format!("type {name}"), &LuaMemberOwner::Type(id.clone()), &mut members);
        for op in ALL_OPS {
            if let Some(ids) = db.get_operator_index().get_operators(&LuaOperatorOwner::Type(id.clone()), *op) {
                let mut v: Vec<String> = ids
                    .iter()
                    .filter_map(|i| db.get_operator_index().get_operator(i))
                    .map(|o| format!("{}@{} -> {}", fname(db, o.get_file_id()), range_str(o.get_range()), o.get_result(db).map(|t| ty_str(db, &t)).unwrap_or("<err>".into())))
                    .collect();
                v.sort();
                ops.push(format!("{name} {op:?} {v:?}"));
            }
        }
        let mut r: Vec<String> = db.get_reference_index().get_type_references(&id).unwrap_or_default().iter().filter(|x| !db.get_module_index().is_std(&x.file_id)).map(|x| format!("{}:{}", fname(db, x.file_id), range_str(x.value))).collect();
        r.sort();
        trefs.push(format!("{name} <- {r:?}"));
    }
    d.sections.insert("types|".into(), sorted(types));
    d.sections.insert("hover|#types".into(), sorted(typedoc));
    d.sections.insert("operators|".into(), sorted(ops));
    d.sections.insert("typerefs|".into(), sorted(trefs));

    // ---- globals declared outside the std library, their members and references
    let mut globals: BTreeMap<String, Vec<String>> = BTreeMap::new();
    for id in db.get_global_index().get_all_global_decl_ids() {
        if db.get_module_index().is_std(&id.file_id) {
            continue;
        }
        let Some(decl) = db.get_decl_index().get_decl(&id) else {
            globals.entry("<dangling>".into()).or_default().push(format!("{}@{}", fname(db, id.file_id), u32::from(id.position)));
            continue;
        };
        let ty = db.get_type_index().get_type_cache(&id.into()).map(|t| ty_str(db, t.as_type())).unwrap_or("-".into());
        globals.entry(decl.get_name().to_string()).or_default().push(format!("{}@{}:{ty}", fname(db, id.file_id), u32::from(id.position)));
    }
    let mut gl = Vec::new();
    let mut grefs = Vec::new();
    for (name, mut v) in globals {
        v.sort();
        gl.push(format!("{name} = {v:?}"));
        let mut r: Vec<String> = db
            .get_reference_index()
            .get_global_references(&name)
            .unwrap_or_default()
            .iter()
            .map(|x| format!("{}:{}", fname(db, x.file_id), range_str(x.value.get_range())))
            .collect();
        r.sort();
        grefs.push(format!("{name} <- {r:?}"));
        member_lines(db, &format!("global {name}"), &LuaMemberOwner::GlobalPath(emmylua_code_analysis::GlobalId::new(&name)), &mut members);
    }
    d.sections.insert("globals|".into(), sorted(gl));
    d.sections.insert("globalrefs|".into(), sorted(grefs));
    d.sections.insert("members|".into(), sorted(members));
    d
}

fn scope_str(db: &DbIndex, id: &LuaTypeDeclId) -> String {
    use emmylua_code_analysis::LuaTypeIdentifier::*;
    match id.get_id() {
        Global(_) => "global".into(),
        Internal(w, _) => format!("internal:{w}"),
        File(f, _) => format!("file:{}", fname(db, *f)),
    }
}

const ALL_OPS: &[LuaOperatorMetaMethod] = &[
    LuaOperatorMetaMethod::Add,
    LuaOperatorMetaMethod::Sub,
    LuaOperatorMetaMethod::Mul,
    LuaOperatorMetaMethod::Concat,
    LuaOperatorMetaMethod::Call,
    LuaOperatorMetaMethod::Index,
    LuaOperatorMetaMethod::Len,
    LuaOperatorMetaMethod::Unm,
    LuaOperatorMetaMethod::Eq,
];

fn member_lines(db: &DbIndex, label: &str, owner: &LuaMemberOwner, out: &mut Vec<String>) {
    let Some(ms) = db.get_member_index().get_members(owner) else { return };
    for m in ms {
        let id = m.get_id();
        let ty = db.get_type_index().get_type_cache(&id.into()).map(|t| ty_str(db, t.as_type())).unwrap_or("-".into());
        let prop = prop_str(db, &LuaSemanticDeclId::Member(id)).unwrap_or_default();
        out.push(format!("{label} . {} = {}@{} {:?} : {ty} {prop}", m.get_key().to_path(), fname(db, m.get_file_id()), range_str(m.get_range()), m.get_feature()));
    }
}

pub fn sizes(an: &EmmyLuaAnalysis) -> Vec<(String, usize)> {
    verif_hooks::index_sizes(an.compilation.get_db())
}

pub fn snapshot(an: &EmmyLuaAnalysis, case: &Case) -> Snapshot {
    Snapshot { dump: dump(an, case), sizes: sizes(an), tree_defects: verif_hooks::module_tree_defects(an.compilation.get_db()) }
}

/// labels of `after` that are larger than in `before`
pub fn grown(before: &[(String, usize)], after: &[(String, usize)]) -> Vec<(String, usize, usize)> {
    let b: BTreeMap<&str, usize> = before.iter().map(|(k, v)| (k.as_str(), *v)).collect();
    after.iter().filter_map(|(k, v)| b.get(k.as_str()).filter(|bv| v > *bv).map(|bv| (k.clone(), *bv, *v))).collect()
}

pub fn sizes_hash(s: &[(String, usize)]) -> u64 {
    let mut h = 0u64;
    for (k, v) in s {
        h = h.rotate_left(7) ^ vcore::fnv(k.as_bytes()) ^ (*v as u64).wrapping_mul(0x9E3779B97F4A7C15);
    }
    h
}
