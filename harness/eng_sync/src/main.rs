//! eng_sync — C38: concurrent read-only queries are race-free.
//!
//! The read path of a shared `EmmyLuaAnalysis` performs no synchronisation operation, so a
//! controlled scheduler has exactly one interleaving class per harness; exploring it would be
//! vacuous (DESIGN §4 C38). What is enumerated instead:
//!  (i)   the compile-time obligation set of hook H3 (`verif_assert_sync`): this engine only links
//!        if every component of the analysis is `Send + Sync` on its own — a failure is reported by
//!        `check` from the compiler output;
//!  (ii)  every `unsafe impl Send/Sync` in the analysed crates must be on the allow-list of
//!        per-call / checked types;
//!  (iii) query-granularity interleavings: 2–3 logical clients, each with a sequence of 1–2
//!        queries on ONE shared analysis — every interleaving of the sequences on one thread —
//!        each answer compared with the same query run alone on a fresh analysis (catches any
//!        hidden shared cache whose content depends on who asked first);
//!  (iv)  supplementary, sampled: the same query bodies free-running on OS threads.
use emmylua_code_analysis::{EmmyLuaAnalysis, FileId, RenderLevel, SemanticDeclLevel, VirtualWorkspace, humanize_type};
use emmylua_parser::{LuaAstNode, LuaSyntaxKind, LuaTokenKind};
use rowan::NodeOrToken;
use serde_json::{Value, json};
use tokio_util::sync::CancellationToken;
use vcore::*;

const FILES: [(&str, &str); 3] = [
    (
        "a.lua",
        "---@class A\n---@field x integer\n---@field f fun(self: A, n: integer): string\nlocal A = {}\n---@return A\nfunction A.new() return setmetatable({}, A) end\nfunction A:f(n) return tostring(n) end\nGLOBAL_A = A.new()\nreturn A\n",
    ),
    (
        "b.lua",
        "local A = require('a')\nlocal obj = A.new()\nlocal s = obj:f(obj.x)\n---@type table<string, A>\nlocal map = {}\nmap.k = obj\nundefined_fn(s, GLOBAL_A)\nreturn map\n",
    ),
    (
        "c.lua",
        "---@generic T\n---@param v T\n---@return T[]\nlocal function wrap(v) return { v } end\nlocal xs = wrap(GLOBAL_A)\nlocal first = xs[1]\nlocal n = first.x + 1\nreturn n\n",
    ),
];

#[derive(Clone, Copy, Debug, PartialEq, Eq)]
enum Q {
    Diagnose(usize),
    /// semantic info (type + declaration) of every name token of file i
    Semantic(usize),
    /// members of the type of every name token of file i
    Members(usize),
}

fn menu() -> Vec<Q> {
    let mut v = Vec::new();
    for i in 0..FILES.len() {
        v.push(Q::Diagnose(i));
        v.push(Q::Semantic(i));
        v.push(Q::Members(i));
    }
    v
}

struct World {
    ws: VirtualWorkspace,
    ids: Vec<FileId>,
}

fn build() -> World {
    let mut ws = VirtualWorkspace::new();
    ws.enable_full_diagnostic();
    let ids = ws.def_files(FILES.to_vec());
    World { ws, ids }
}

fn answer(an: &EmmyLuaAnalysis, ids: &[FileId], q: Q) -> String {
    let db = an.compilation.get_db();
    match q {
        Q::Diagnose(i) => {
            let d = an.diagnose_file(ids[i], CancellationToken::new()).unwrap_or_default();
            let mut v: Vec<String> = d.iter().map(|d| format!("{:?}|{:?}|{}", d.range, d.code, d.message)).collect();
            v.sort();
            v.join("\n")
        }
        Q::Semantic(i) | Q::Members(i) => {
            let Some(model) = an.compilation.get_semantic_model(ids[i]) else { return "no-model".into() };
            let root = model.get_root().syntax().clone();
            let mut out = Vec::new();
            for el in root.descendants_with_tokens() {
                if let NodeOrToken::Token(t) = el {
                    if t.kind() != LuaTokenKind::TkName.into() {
                        continue;
                    }
                    let pos: u32 = t.text_range().start().into();
                    let info = model.get_semantic_info(NodeOrToken::Token(t.clone()));
                    match (q, info) {
                        (Q::Semantic(_), Some(info)) => {
                            let decl = model.find_decl(NodeOrToken::Token(t.clone()), SemanticDeclLevel::default());
                            out.push(format!("{pos}:{}:{}:{:?}", t.text(), humanize_type(db, &info.typ, RenderLevel::Detailed), decl));
                        }
                        (Q::Members(_), Some(info)) => {
                            let mut ms: Vec<String> = model
                                .get_member_infos(&info.typ)
                                .unwrap_or_default()
                                .iter()
                                .map(|m| format!("{:?}={}", m.key, humanize_type(db, &m.typ, RenderLevel::Simple)))
                                .collect();
                            ms.sort();
                            out.push(format!("{pos}:{}:[{}]", t.text(), ms.join(",")));
                        }
                        (_, None) => out.push(format!("{pos}:{}:none", t.text())),
                        (Q::Diagnose(_), Some(_)) => {}
                    }
                }
            }
            let _ = LuaSyntaxKind::Chunk;
            out.join("\n")
        }
    }
}

/// all interleavings of the clients' sequences (each as a list of client indices)
fn interleavings(lens: &[usize]) -> Vec<Vec<usize>> {
    fn rec(left: &mut Vec<usize>, cur: &mut Vec<usize>, out: &mut Vec<Vec<usize>>) {
        if left.iter().all(|l| *l == 0) {
            out.push(cur.clone());
            return;
        }
        for c in 0..left.len() {
            if left[c] > 0 {
                left[c] -= 1;
                cur.push(c);
                rec(left, cur, out);
                cur.pop();
                left[c] += 1;
            }
        }
    }
    let mut out = Vec::new();
    rec(&mut lens.to_vec(), &mut Vec::new(), &mut out);
    out
}

fn client_seqs(menu_len: usize, max_len: usize) -> Vec<Vec<usize>> {
    let mut v: Vec<Vec<usize>> = (0..menu_len).map(|a| vec![a]).collect();
    if max_len >= 2 {
        for a in 0..menu_len {
            for b in 0..menu_len {
                if a != b {
                    v.push(vec![a, b]);
                }
            }
        }
    }
    v
}

fn scan_unsafe_impls() -> Vec<(String, String)> {
    let mut found = Vec::new();
    fn walk(p: &std::path::Path, found: &mut Vec<(String, String)>) {
        let Ok(rd) = std::fs::read_dir(p) else { return };
        let mut es: Vec<_> = rd.flatten().map(|e| e.path()).collect();
        es.sort();
        for e in es {
            if e.is_dir() {
                if e.file_name().is_some_and(|n| n == "target") {
                    continue;
                }
                walk(&e, found);
            } else if e.extension().is_some_and(|x| x == "rs") {
                if let Ok(t) = std::fs::read_to_string(&e) {
                    for line in t.lines() {
                        let l = line.trim();
                        if l.starts_with("//") {
                            continue;
                        }
                        if let Some(i) = l.find("unsafe impl") {
                            let rest = &l[i..];
                            if rest.contains(" Send ") || rest.contains(" Sync ") || rest.contains("Send for") || rest.contains("Sync for") {
                                let ty = rest.split(" for ").nth(1).unwrap_or("").trim_end_matches(|c| c == '{' || c == '}' || c == ' ').to_string();
                                let rel = e.to_string_lossy().split("/crates/").nth(1).unwrap_or("").to_string();
                                found.push((ty, rel));
                            }
                        }
                    }
                }
            }
        }
    }
    for c in ["emmylua_code_analysis", "emmylua_parser", "emmylua_parser_desc"] {
        walk(&repo_root().join("crates").join(c).join("src"), &mut found);
    }
    found
}

/// types that may carry an unchecked assertion: per-call objects (never stored in the shared
/// analysis) and the analysis itself, whose fields are checked by the H3 obligations
const ALLOWED_UNSAFE: [&str; 3] = ["LuaAstPtr<T>", "SemanticModel<'a>", "EmmyLuaAnalysis"];

fn main() {
    let args = parse_args();
    if args.prop != "C38" {
        die("eng_sync serves C38");
    }
    let mn = menu();
    if let Some(w) = args.replay_witness() {
        let w = if w.get("witness").is_some() { w["witness"].clone() } else { w };
        if let Some(ty) = w["type"].as_str() {
            let hit = scan_unsafe_impls().into_iter().find(|(t, _)| t == ty);
            finish_replay(hit.map(|(t, f)| Violation { signature: "unchecked-assertion".into(), witness: w.clone(), detail: format!("unsafe impl Send/Sync for {t} in {f}") }), "C38");
        }
        let order: Vec<usize> = w["order"].as_array().map(|a| a.iter().map(|x| x.as_u64().unwrap_or(0) as usize).collect()).unwrap_or_default();
        let world = build();
        let mut bad = None;
        for qi in &order {
            let got = answer(&world.ws.analysis, &world.ids, mn[*qi]);
            let alone = build();
            let want = answer(&alone.ws.analysis, &alone.ids, mn[*qi]);
            if got != want {
                bad = Some(Violation { signature: "answer-depends-on-query-order".into(), witness: w.clone(), detail: format!("{:?}", mn[*qi]) });
            }
        }
        finish_replay(bad, "C38");
    }
    let dl = args.deadline();
    let mut rep = Report::new("C38", "exploration");
    let mut all = Stats::default();

    // (i) obligations: this binary links against verif_assert_sync, so they are discharged
    let obligations = emmylua_code_analysis::verif_assert_sync::OBLIGATIONS;
    all.evaluations += obligations as u64;
    all.nontrivial += obligations as u64;
    all.outcome("obligation-discharged-by-compiler");

    // (ii) allow-list of unchecked assertions
    let found = scan_unsafe_impls();
    for (ty, file) in &found {
        all.eval(true);
        if ALLOWED_UNSAFE.contains(&ty.as_str()) {
            all.outcome("unsafe-impl-on-allow-list");
        } else {
            all.outcome("unsafe-impl-not-allowed");
            all.violation(Violation { signature: "unchecked-assertion".into(), witness: json!({"type": ty}), detail: format!("`unsafe impl Send/Sync for {ty}` in {file}: a type of the shared analysis relies on an unchecked assertion") });
        }
    }

    // reference answers: each query alone on a fresh analysis (twice: the reference must be stable)
    let reference: Vec<String> = mn
        .iter()
        .map(|q| {
            let w = build();
            answer(&w.ws.analysis, &w.ids, *q)
        })
        .collect();
    let reference2: Vec<String> = mn
        .iter()
        .map(|q| {
            let w = build();
            answer(&w.ws.analysis, &w.ids, *q)
        })
        .collect();
    let stable: Vec<bool> = reference.iter().zip(&reference2).map(|(a, b)| a == b).collect();

    // (iii) interleavings
    let n_clients_max = args.tier.pick(2, 3);
    let seqs = client_seqs(mn.len(), 2);
    let mut jobs: Vec<Vec<usize>> = Vec::new(); // indices into seqs, one per client
    for a in 0..seqs.len() {
        for b in a..seqs.len() {
            jobs.push(vec![a, b]);
        }
    }
    if n_clients_max >= 3 {
        let singles: Vec<usize> = (0..mn.len()).collect();
        for a in &singles {
            for b in &singles {
                for c in &singles {
                    if a <= b && b <= c {
                        jobs.push(vec![*a, *b, *c]);
                    }
                }
            }
        }
    }
    let (st, done) = par_range(jobs.len() as u64, args.threads, &dl, |ji, st| {
        let clients: Vec<&Vec<usize>> = jobs[ji as usize].iter().map(|s| &seqs[*s]).collect();
        let lens: Vec<usize> = clients.iter().map(|c| c.len()).collect();
        for il in interleavings(&lens) {
            let world = build();
            let mut next = vec![0usize; clients.len()];
            let mut order = Vec::new();
            let mut failed: Option<usize> = None;
            for c in &il {
                let qi = clients[*c][next[*c]];
                next[*c] += 1;
                order.push(qi);
                if !stable[qi] {
                    st.undecided += 1;
                    continue;
                }
                let got = answer(&world.ws.analysis, &world.ids, mn[qi]);
                if got != reference[qi] && failed.is_none() {
                    failed = Some(qi);
                }
            }
            st.eval(order.len() > 1);
            match failed {
                None => st.outcome("answers-equal-solo-answers"),
                Some(qi) => {
                    st.outcome("answer-depends-on-order");
                    // minimise: shortest prefix-subsequence that still makes query qi differ
                    let min = minimise_seq(&order, |cand| {
                        if !cand.contains(&qi) {
                            return false;
                        }
                        let w = build();
                        let mut bad = false;
                        for q in cand {
                            let got = answer(&w.ws.analysis, &w.ids, mn[*q]);
                            if *q == qi && got != reference[qi] {
                                bad = true;
                            }
                        }
                        bad
                    });
                    st.violation(Violation {
                        signature: "answer-depends-on-query-order".into(),
                        witness: json!({"order": min, "queries": min.iter().map(|q| format!("{:?}", mn[*q])).collect::<Vec<_>>()}),
                        detail: format!("{:?} answers differently after {:?} than alone on a fresh analysis", mn[qi], min),
                    });
                }
            }
            st.sample(|| json!({"clients": clients, "interleaving": il, "queries": order.iter().map(|q| format!("{:?}", mn[*q])).collect::<Vec<_>>()}));
        }
    });
    all.merge(st);

    // (iv) supplementary, sampled: free-running OS threads on one shared analysis
    let world = build();
    let shared = std::sync::Arc::new(world);
    let mut thread_mismatch = 0usize;
    let rounds = args.tier.pick(2, 20);
    for _ in 0..rounds {
        let results: Vec<Vec<String>> = std::thread::scope(|s| {
            let hs: Vec<_> = (0..args.threads.min(16))
                .map(|t| {
                    let shared = shared.clone();
                    let mn = mn.clone();
                    s.spawn(move || (0..mn.len()).map(|k| answer(&shared.ws.analysis, &shared.ids, mn[(k + t) % mn.len()])).collect::<Vec<_>>())
                })
                .collect();
            hs.into_iter().map(|h| h.join().unwrap_or_default()).collect()
        });
        for (t, r) in results.iter().enumerate() {
            for (k, got) in r.iter().enumerate() {
                let qi = (k + t) % mn.len();
                if stable[qi] && *got != reference[qi] {
                    thread_mismatch += 1;
                }
            }
        }
    }
    if thread_mismatch > 0 {
        all.violation(Violation { signature: "concurrent-answer-differs".into(), witness: json!({"mode": "free-running threads"}), detail: format!("{thread_mismatch} answers computed on concurrent OS threads differ from the sequential reference (sampled)") });
    }

    rep.rule = format!(
        "(i) {obligations} compile-time Send+Sync obligations on the components of EmmyLuaAnalysis (discharged by rustc when this engine is built); (ii) every `unsafe impl Send/Sync` found in the three analysed crates ({} sites) must be on the allow-list {:?}; (iii) every interleaving of the query sequences (length 1–2 over a menu of {} queries: diagnose / semantic info of every name token / member listing of every name token, on 3 cross-referencing files) of 2{} logical clients on ONE shared analysis, each answer compared with the query run alone on a fresh analysis ({} client combinations); (iv) sampled supplement: {} rounds of the query bodies on {} free-running OS threads. non-trivial = more than one query in the interleaving; enumeration never repeats a case",
        found.len(),
        ALLOWED_UNSAFE,
        mn.len(),
        if n_clients_max >= 3 { "–3" } else { "" },
        jobs.len(),
        rounds,
        args.threads.min(16)
    );
    rep.exhaustive = done;
    rep.bounds = json!({"clients": n_clients_max, "client_combinations": jobs.len(), "completed": done, "thread_rounds_sampled": rounds, "wall_cap_hit": dl.was_hit()});
    rep.set("obligations", json!(obligations));
    rep.set("unsafe_impl_sites", json!(found));
    rep.assumptions = vec![
        "the read path performs no synchronisation operation, so thread interleavings below query granularity are not explorable by a scheduler; data-race freedom rests on the compiler's Send/Sync checking of the component types (obligations i, ii)".into(),
        "part (iv) is sampling and never the deciding step".into(),
    ];
    let _: Option<Value> = None;
    rep.finish(&args, all)
}
