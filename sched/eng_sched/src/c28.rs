//! C28 — the server never deadlocks.
//! (1) solo runs of every candidate client message record its *lock program*; every message
//!     whose program takes a write lock or more than one lock joins the menu (so a handler
//!     added or re-ordered by a future edit is picked up without touching the harness);
//! (2) every k-subset of the menu (k = 1, 2, 3[, 4]) is started together behind one open
//!     document and all schedules up to the preemption bound are explored;
//! (3) oracles: (i) no reachable state where nothing is enabled and a task is blocked on a lock
//!     (real tokio fair queueing decides who blocks); (ii) lock-order monitor over all explored
//!     executions: held→requested graph acyclic, no re-acquisition of a held lock; (iii) no
//!     wait on a non-lock primitive while holding a lock that another waiting task needs.
use crate::ctl::{self, explore};
use crate::world::{self, EndState, Msg, Scenario};
use crate::{Acc, thread_root};
use serde_json::{Value, json};
use std::collections::{BTreeMap, BTreeSet, HashMap, HashSet};
use std::sync::Mutex;
use tokio::verif::{Ev, OpKind};
use vcore::*;

const DOC: &str = "local t = {}\nfunction t.f(a) return a end\nlocal s = t.f(1)\nprint(s)\n";

pub fn candidates() -> Vec<(String, Vec<Msg>)> {
    single_candidates().into_iter().map(|(n, m)| (n, vec![m])).chain(sequence_candidates()).collect()
}

/// candidates that need more than one message to reach a handler branch
fn sequence_candidates() -> Vec<(String, Vec<Msg>)> {
    vec![
        // didClose of a document that is not on disk takes the remove-from-analysis branch
        ("didOpen+didClose:n".into(), vec![world::did_open("n.lua", "local n = 1\n"), world::did_close("n.lua")]),
        // change then close of the preamble document (restore-from-disk branch with a differing text)
        ("didChange+didClose:a".into(), vec![world::did_change("a.lua", 2, "local t = 2\n"), world::did_close("a.lua")]),
    ]
}

fn single_candidates() -> Vec<(String, Msg)> {
    let pos = world::doc_pos("a.lua", 2, 7);
    let doc = world::doc_only("a.lua");
    let range = json!({"start": {"line": 0, "character": 0}, "end": {"line": 3, "character": 0}});
    let mut v: Vec<(String, Msg)> = Vec::new();
    let mut id = 100;
    let mut req = |name: &str, method: &'static str, params: Value| {
        id += 1;
        v.push((name.to_string(), world::request(id, method, params)));
    };
    let with = |base: &Value, extra: Value| {
        let mut b = base.clone();
        for (k, x) in extra.as_object().unwrap() {
            b[k] = x.clone();
        }
        b
    };
    req("hover", "textDocument/hover", pos.clone());
    req("documentSymbol", "textDocument/documentSymbol", doc.clone());
    req("foldingRange", "textDocument/foldingRange", doc.clone());
    req("documentColor", "textDocument/documentColor", doc.clone());
    req("documentLink", "textDocument/documentLink", doc.clone());
    req("selectionRange", "textDocument/selectionRange", with(&doc, json!({"positions": [{"line": 2, "character": 7}]})));
    req("completion", "textDocument/completion", pos.clone());
    req("completionResolve", "completionItem/resolve", json!({"label": "t"}));
    req("inlayHint", "textDocument/inlayHint", with(&doc, json!({"range": range})));
    req("definition", "textDocument/definition", pos.clone());
    req("implementation", "textDocument/implementation", pos.clone());
    req("references", "textDocument/references", with(&pos, json!({"context": {"includeDeclaration": true}})));
    req("rename", "textDocument/rename", with(&pos, json!({"newName": "zz"})));
    req("prepareRename", "textDocument/prepareRename", pos.clone());
    req("codeLens", "textDocument/codeLens", doc.clone());
    req("signatureHelp", "textDocument/signatureHelp", pos.clone());
    req("documentHighlight", "textDocument/documentHighlight", pos.clone());
    req("semanticTokens", "textDocument/semanticTokens/full", doc.clone());
    req("codeAction", "textDocument/codeAction", with(&doc, json!({"range": range, "context": {"diagnostics": []}})));
    req("inlineValue", "textDocument/inlineValue", with(&doc, json!({"range": range, "context": {"frameId": 0, "stoppedLocation": range}})));
    req("workspaceSymbol", "workspace/symbol", json!({"query": "t"}));
    req("formatting", "textDocument/formatting", with(&doc, json!({"options": {"tabSize": 4, "insertSpaces": true}})));
    req("rangeFormatting", "textDocument/rangeFormatting", with(&doc, json!({"range": range, "options": {"tabSize": 4, "insertSpaces": true}})));
    req("onTypeFormatting", "textDocument/onTypeFormatting", with(&pos, json!({"ch": "\n", "options": {"tabSize": 4, "insertSpaces": true}})));
    req("prepareCallHierarchy", "textDocument/prepareCallHierarchy", pos.clone());
    req("documentDiagnostic", "textDocument/diagnostic", doc.clone());
    req("workspaceDiagnostic", "workspace/diagnostic", json!({"previousResultIds": []}));
    req("executeCommand:autoRequire", "workspace/executeCommand", json!({"command": "emmy.auto.require", "arguments": ["{ROOT}/a.lua", "{ROOT}/b.lua", 0, null]}));
    req("emmyAnnotator", "emmy/annotator", json!({"uri": "{ROOT}/a.lua"}));
    // notifications
    v.push(("didOpen:b".into(), world::did_open("b.lua", "local b = 2\n")));
    v.push(("didChange:a".into(), world::did_change("a.lua", 2, "local t = 1\n")));
    v.push(("didClose:a".into(), world::did_close("a.lua")));
    v.push(("didOpenClose:n".into(), world::did_open("n.lua", "local n = 1\n")));
    v.push(("didSave:a".into(), world::did_save("a.lua")));
    v.push(("watched:created".into(), world::watched(&[("c.lua", 1)])));
    v.push(("watched:deleted".into(), world::watched(&[("b.lua", 3)])));
    v.push(("watched:config".into(), world::watched(&[(".emmyrc.json", 2)])));
    v.push(("watched:config+lua".into(), world::watched(&[(".emmyrc.json", 2), ("c.lua", 2)])));
    v.push(("didChangeConfiguration".into(), world::did_change_configuration()));
    v.push((
        "didRenameFiles".into(),
        Msg::Notify("workspace/didRenameFiles", json!({"files": [{"oldUri": "{ROOT}/b.lua", "newUri": "{ROOT}/b2.lua"}]})),
    ));
    v
}

pub fn base_scenario(name: &str, msgs: &[&(String, Vec<Msg>)], pull: bool) -> Scenario {
    let mut s = Scenario::new(name);
    s.disk = vec![
        ("a.lua".into(), DOC.into()),
        ("b.lua".into(), "local b = require('a')\n".into()),
        ("c.lua".into(), "local c = 3\n".into()),
        (".emmyrc.json".into(), "{\"workspace\": {\"enableReindex\": true}}".into()),
    ];
    s.pull_diagnostics = pull;
    s.emmyrc = json!({"workspace": {"enableReindex": true}});
    s.messages.push(world::did_open("a.lua", DOC));
    for (_, ms) in msgs {
        s.messages.extend(ms.iter().cloned());
    }
    // the client answers a configuration request with one empty section, or never
    s.client_answers = vec![Some(json!([null])), None];
    s.max_steps = 600;
    s
}

/// attribution of every logical task to the index of the client message being processed when
/// it was spawned (the main loop itself is attributed message by message)
pub struct Attribution {
    pub main: Option<usize>,
    pub task_msg: HashMap<usize, usize>,
}

/// Walks the event trace, calling `f(event, message index of the acting task)`.
pub fn walk_events(events: &[Ev], mut f: impl FnMut(&Ev, Option<usize>)) {
    let mut main: Option<usize> = None;
    let mut task_msg: HashMap<usize, usize> = HashMap::new();
    let mut main_msg: Option<usize> = None;
    let mut recvs = 0usize;
    for e in events {
        let actor = match e {
            Ev::Spawn { parent, task } => {
                if main.is_none() && parent.is_none() {
                    main = Some(*task);
                } else if let Some(p) = parent {
                    let m = if Some(*p) == main { main_msg } else { task_msg.get(p).copied() };
                    if let Some(m) = m {
                        task_msg.insert(*task, m);
                    }
                }
                *parent
            }
            Ev::Release { task, op } => {
                if Some(*task) == main && op.kind == OpKind::Recv {
                    main_msg = Some(recvs);
                    recvs += 1;
                }
                Some(*task)
            }
            Ev::Gate { task, .. } | Ev::Blocked { task, .. } | Ev::Done { task } | Ev::Panicked { task } => Some(*task),
            Ev::Acquired { task, .. } | Ev::Freed { task, .. } => *task,
            Ev::TimerFired { .. } => None,
        };
        let m = actor.and_then(|a| if Some(a) == main { main_msg } else { task_msg.get(&a).copied() });
        f(e, m);
    }
}

fn obj_name(names: &HashMap<usize, String>, o: usize) -> String {
    // unnamed objects are per-call (e.g. the semaphore of a bounded channel created inside a handler)
    names.get(&o).cloned().unwrap_or_else(|| "per-call".to_string())
}
fn named(names: &HashMap<usize, String>, o: usize) -> bool {
    names.contains_key(&o)
}

/// lock program of message index `mi`: ordered acquire/free operations on named locks
pub fn lock_program(e: &EndState, mi: usize) -> Vec<String> {
    let mut prog = Vec::new();
    walk_events(&e.events, |ev, m| {
        if m != Some(mi) {
            return;
        }
        match ev {
            Ev::Acquired { obj, n, .. } => prog.push(format!("+{}{}", obj_name(&e.names, *obj), if *n > 1 { ":w" } else { "" })),
            Ev::Freed { obj, .. } => prog.push(format!("-{}", obj_name(&e.names, *obj))),
            Ev::Spawn { .. } => prog.push("spawn".into()),
            _ => {}
        }
    });
    prog
}

/// per-task operation sequences (on the server's named locks) of message index `mi`, from a
/// solo run: `(task id, is main loop, ops)`; ops are ("acq"|"rel"|"spawn", lock name | child task, n)
pub fn task_programs(e: &EndState, mi: usize) -> Vec<(usize, bool, Vec<(String, String, u32)>)> {
    let mut order: Vec<usize> = Vec::new();
    let mut progs: HashMap<usize, Vec<(String, String, u32)>> = HashMap::new();
    let mut main: Option<usize> = None;
    walk_events(&e.events, |ev, m| {
        if main.is_none() {
            if let Ev::Spawn { parent: None, task } = ev {
                main = Some(*task);
            }
        }
        if m != Some(mi) {
            return;
        }
        let mut push = |t: usize, op: (String, String, u32)| {
            if !order.contains(&t) {
                order.push(t);
            }
            progs.entry(t).or_default().push(op);
        };
        match ev {
            Ev::Acquired { task: Some(t), obj, n } if named(&e.names, *obj) => push(*t, ("acq".into(), obj_name(&e.names, *obj), *n as u32)),
            Ev::Freed { task: Some(t), obj, n } if named(&e.names, *obj) => push(*t, ("rel".into(), obj_name(&e.names, *obj), *n as u32)),
            Ev::Spawn { parent: Some(p), task } => push(*p, ("spawn".into(), task.to_string(), 0)),
            _ => {}
        }
    });
    order.into_iter().map(|t| (t, Some(t) == main, progs.remove(&t).unwrap_or_default())).collect()
}

/// Builds the model of a subset: one main-loop process running the inline parts of the messages
/// in order, plus every task they spawn.
fn build_system(parts: &[(String, Vec<(usize, bool, Vec<(String, String, u32)>)>)]) -> crate::model::System {
    use crate::model::Op;
    let mut lock_names: Vec<String> = Vec::new();
    let mut totals: Vec<u32> = Vec::new();
    let mut progs: Vec<Vec<Op>> = vec![vec![]];
    let mut proc_names: Vec<String> = vec!["main-loop".to_string()];
    for (mname, tasks) in parts {
        // process index of every task of this message
        let mut idx: HashMap<usize, usize> = HashMap::new();
        for (t, is_main, _) in tasks {
            if *is_main {
                idx.insert(*t, 0);
            } else {
                idx.insert(*t, progs.len());
                progs.push(vec![]);
                proc_names.push(format!("{mname}/t{t}"));
            }
        }
        for (t, _, ops) in tasks {
            let pi = idx[t];
            for (kind, what, n) in ops {
                let op = match kind.as_str() {
                    "spawn" => {
                        let child: usize = what.parse().unwrap_or(usize::MAX);
                        match idx.get(&child) {
                            Some(c) => Op::Spawn(*c),
                            None => continue, // a task that never touched a named lock
                        }
                    }
                    k => {
                        let li = match lock_names.iter().position(|l| l == what) {
                            Some(i) => i,
                            None => {
                                lock_names.push(what.clone());
                                totals.push(if what == "analysis" || what == "workspace_manager" { 536_870_911 } else { 1 });
                                lock_names.len() - 1
                            }
                        };
                        if *n > totals[li] {
                            totals[li] = *n;
                        }
                        if k == "acq" { Op::Acq(li, *n) } else { Op::Rel(li, *n) }
                    }
                };
                progs[pi].push(op);
            }
        }
    }
    // sound reduction: operations on a lock that can never block in this instance are dropped —
    // a lock no process takes exclusively (readers only), or a lock a single process uses
    let nl = lock_names.len();
    let mut users: Vec<HashSet<usize>> = vec![HashSet::new(); nl];
    let mut exclusive = vec![false; nl];
    for (pi, prog) in progs.iter().enumerate() {
        for op in prog {
            if let Op::Acq(l, n) = op {
                users[*l].insert(pi);
                if *n >= totals[*l] {
                    exclusive[*l] = true;
                }
            }
        }
    }
    let keep: Vec<bool> = (0..nl).map(|l| exclusive[l] && users[l].len() > 1).collect();
    for prog in progs.iter_mut() {
        prog.retain(|op| match op {
            Op::Acq(l, _) | Op::Rel(l, _) => keep[*l],
            Op::Spawn(_) => true,
        });
    }
    crate::model::System { lock_names, totals, progs, roots: vec![0], proc_names }
}

#[derive(Default)]
struct Monitor {
    /// held -> requested, with one example (message kind) per edge
    edges: BTreeMap<(String, String), String>,
    reacquire: BTreeMap<(String, String), String>,
    hold_across_wait: BTreeMap<(String, String, String), String>,
}

fn monitor_exec(e: &EndState, kinds: &[String], mon: &mut Monitor) {
    let mut held: HashMap<usize, Vec<usize>> = HashMap::new();
    // tasks currently blocked on Acquire of obj
    let mut waiting_for: HashMap<usize, usize> = HashMap::new();
    walk_events(&e.events, |ev, m| {
        let kind = m.and_then(|i| kinds.get(i)).cloned().unwrap_or_else(|| "background".into());
        match ev {
            Ev::Gate { task, op } if op.kind == OpKind::Acquire && named(&e.names, op.obj) => {
                let req = obj_name(&e.names, op.obj);
                for h in held.get(task).cloned().unwrap_or_default().into_iter().filter(|h| named(&e.names, *h)) {
                    let hn = obj_name(&e.names, h);
                    if h == op.obj {
                        mon.reacquire.entry((kind.clone(), hn.clone())).or_insert_with(|| format!("{kind} requests {req} while already holding it"));
                    } else {
                        mon.edges.entry((hn.clone(), req.clone())).or_insert_with(|| kind.clone());
                    }
                }
            }
            Ev::Blocked { task, op } => {
                if op.kind == OpKind::Acquire {
                    waiting_for.insert(*task, op.obj);
                } else if matches!(op.kind, OpKind::Oneshot | OpKind::Recv) {
                    // (iii): waiting on a non-lock primitive while holding a lock another waiting task needs
                    for h in held.get(task).cloned().unwrap_or_default() {
                        if waiting_for.values().any(|o| *o == h) {
                            let hn = obj_name(&e.names, h);
                            mon.hold_across_wait.entry((kind.clone(), hn.clone(), format!("{:?}", op.kind))).or_insert_with(|| {
                                format!("{kind} waits on {:?} while holding {hn}, which another waiting task needs", op.kind)
                            });
                        }
                    }
                }
            }
            Ev::Acquired { task: Some(t), obj, .. } => {
                held.entry(*t).or_default().push(*obj);
                waiting_for.remove(t);
            }
            Ev::Freed { task: Some(t), obj, .. } => {
                if let Some(v) = held.get_mut(t) {
                    if let Some(i) = v.iter().rposition(|o| o == obj) {
                        v.remove(i);
                    }
                }
            }
            _ => {}
        }
    });
}

fn find_cycles(edges: &BTreeMap<(String, String), String>) -> Vec<Vec<String>> {
    // small graphs: enumerate simple cycles by DFS from each node, canonical rotation = smallest first
    let nodes: BTreeSet<String> = edges.keys().flat_map(|(a, b)| [a.clone(), b.clone()]).collect();
    let mut out: BTreeSet<Vec<String>> = BTreeSet::new();
    fn dfs(start: &str, cur: &str, path: &mut Vec<String>, edges: &BTreeMap<(String, String), String>, out: &mut BTreeSet<Vec<String>>) {
        for ((a, b), _) in edges.iter() {
            if a != cur {
                continue;
            }
            if b == start {
                let mut c = path.clone();
                let mi = c.iter().enumerate().min_by_key(|(_, s)| (*s).clone()).map(|(i, _)| i).unwrap_or(0);
                c.rotate_left(mi);
                out.insert(c);
            } else if !path.contains(b) && b.as_str() > start {
                path.push(b.clone());
                dfs(start, b, path, edges, out);
                path.pop();
            }
        }
    }
    for n in &nodes {
        let mut p = vec![n.clone()];
        dfs(n, n, &mut p, edges, &mut out);
    }
    out.into_iter().collect()
}

fn subsets(n: usize, k: usize) -> Vec<Vec<usize>> {
    let mut out = Vec::new();
    fn rec(start: usize, n: usize, k: usize, cur: &mut Vec<usize>, out: &mut Vec<Vec<usize>>) {
        if cur.len() == k {
            out.push(cur.clone());
            return;
        }
        for i in start..n {
            cur.push(i);
            rec(i + 1, n, k, cur, out);
            cur.pop();
        }
    }
    rec(0, n, k, &mut Vec::new(), &mut out);
    out
}

fn scenario_for(cands: &[(String, Vec<Msg>)], menu: &[usize], subset: &[usize], pull: bool) -> (Scenario, Vec<String>) {
    let msgs: Vec<&(String, Vec<Msg>)> = subset.iter().map(|i| &cands[menu[*i]]).collect();
    let name = msgs.iter().map(|(n, _)| n.clone()).collect::<Vec<_>>().join(" ‖ ");
    let scn = base_scenario(&name, &msgs, pull);
    let mut kinds = vec!["didOpen:a(preamble)".to_string()];
    for (n, ms) in &msgs {
        for _ in ms.iter() {
            kinds.push(n.clone());
        }
    }
    (scn, kinds)
}

pub fn run(args: &Args) -> ! {
    let cands = candidates();
    if let Some(w) = args.replay_witness() {
        let w = if w.get("witness").is_some() { w["witness"].clone() } else { w };
        let names: Vec<String> = w["messages"].as_array().map(|a| a.iter().filter_map(|x| x.as_str().map(String::from)).collect()).unwrap_or_default();
        let idx: Vec<usize> = names.iter().filter_map(|n| cands.iter().position(|c| &c.0 == n)).collect();
        let menu: Vec<usize> = (0..cands.len()).collect();
        let (scn, _) = scenario_for(&cands, &menu, &idx, w["pull"].as_bool().unwrap_or(false));
        let choices: Vec<usize> = w["schedule"].as_array().map(|a| a.iter().map(|x| x.as_u64().unwrap_or(0) as usize).collect()).unwrap_or_default();
        let e = world::run(&scn, &choices, &thread_root(args));
        println!("schedule: {:?}", e.trace.points.iter().map(|p| p.label.clone()).collect::<Vec<_>>());
        finish_replay(e.deadlock.map(|d| Violation { signature: "deadlock".into(), witness: w.clone(), detail: d }), "C28");
    }
    let dl = args.deadline();
    let (kmax, mut bound, mut pull_modes) = args.tier.pick((3usize, 2usize, vec![true]), (4, 3, vec![true, false]));
    if let Some(b) = args.extra_usize("bound") {
        bound = b;
    }
    if let Some(p) = args.extra_usize("pull") {
        pull_modes = vec![p != 0];
    }
    let mut rep = Report::new("C28", "model_checking");
    let acc = Acc::new();
    let mon = Mutex::new(Monitor::default());

    // ---- (1) solo runs: lock programs and the menu
    let mut programs: Vec<(String, Vec<String>)> = Vec::new();
    let mut solo_tasks: Vec<Vec<(usize, bool, Vec<(String, String, u32)>)>> = Vec::new();
    let mut menu: Vec<usize> = Vec::new();
    let mut same_program: Vec<(String, String)> = Vec::new();
    let all: Vec<usize> = (0..cands.len()).collect();
    for (i, (name, _)) in cands.iter().enumerate() {
        let (scn, kinds) = scenario_for(&cands, &all, &[i], false);
        let e = world::run(&scn, &[], &thread_root(args));
        let nmsg = cands[i].1.len();
        let mut prog = Vec::new();
        let mut tasks: Vec<(usize, bool, Vec<(String, String, u32)>)> = Vec::new();
        for mi in 1..=nmsg {
            prog.extend(lock_program(&e, mi));
            for (t, is_main, ops) in task_programs(&e, mi) {
                match tasks.iter_mut().find(|x| x.0 == t) {
                    Some(x) => x.2.extend(ops),
                    None => tasks.push((t, is_main, ops)),
                }
            }
        }
        solo_tasks.push(tasks);
        monitor_exec(&e, &kinds, &mut mon.lock().unwrap());
        // joins the menu: holds two locks at once somewhere (can be part of a circular wait), or
        // write-locks an RwLock (a queued writer blocks later readers under fair queueing)
        let writes = prog.iter().any(|p| p.ends_with(":w"));
        let mut depth = 0i32;
        let mut nested = false;
        for p in &prog {
            if p.starts_with('+') {
                depth += 1;
                nested |= depth > 1;
            } else if p.starts_with('-') {
                depth -= 1;
            }
        }
        if writes || nested {
            // one representative per distinct lock program (messages with the same program have
            // the same synchronisation behaviour); the others are listed in the evidence
            let prog_wo_ids: Vec<String> = prog.clone();
            if let Some(&rep) = menu.iter().find(|m| programs[**m].1 == prog_wo_ids) {
                same_program.push((name.clone(), cands[rep].0.clone()));
            } else {
                menu.push(i);
            }
        }
        acc.with(|st| {
            st.eval(!prog.is_empty());
            st.outcome(if e.deadlock.is_some() { "solo-deadlock" } else { "solo-ok" });
        });
        if let Some(d) = &e.deadlock {
            acc.with(|st| st.violation(Violation { signature: "deadlock".into(), witness: json!({"messages": [name], "pull": false}), detail: format!("solo run, default schedule: {d}") }));
        }
        programs.push((name.clone(), prog));
    }

    // ---- (1b) second stage: explicit-state model of the recorded programs, all interleavings,
    // validated against real tokio primitives (see model.rs)
    let model_k = args.tier.pick(3usize, 4usize);
    let mut model_states = 0u64;
    let mut model_transitions = 0u64;
    let mut model_instances = 0u64;
    let mut model_capped = 0u64;
    let mut traces_validated = 0u64;
    let mut conformance_mismatch: Option<String> = None;
    {
        let model_deadlocks: Mutex<Vec<(Vec<String>, Vec<usize>, crate::model::System)>> = Mutex::new(Vec::new());
        let mut insts: Vec<Vec<usize>> = Vec::new();
        for k in 1..=model_k {
            insts.extend(subsets(menu.len(), k));
        }
        let counters = Mutex::new((0u64, 0u64, 0u64, 0u64, 0u64, None::<String>));
        let model_dl = Deadline::after_secs((args.wall_cap_s * 0.4).max(5.0));
        let (_st, _done) = par_range(insts.len() as u64, args.threads, &model_dl, |i, _st| {
            let subset = &insts[i as usize];
            let parts: Vec<(String, Vec<(usize, bool, Vec<(String, String, u32)>)>)> = subset.iter().map(|m| (cands[menu[*m]].0.clone(), solo_tasks[menu[*m]].clone())).collect();
            let sys = build_system(&parts);
            let r = crate::model::search(&sys, args.tier.pick(50_000, 3_000_000));
            let mut validated = 0u64;
            let mut mismatch = None;
            // conformance on small instances: every maximal trail (capped) replayed on real tokio locks
            if subset.len() <= 2 {
                for trail in crate::model::maximal_trails(&sys, args.tier.pick(40, 400)) {
                    let want = crate::model::model_observations(&sys, &trail);
                    match crate::model::replay_on_tokio(&sys, &trail) {
                        Ok(got) if got == want => validated += 1,
                        Ok(got) => {
                            let at = got.iter().zip(&want).position(|(a, b)| a != b).unwrap_or(0);
                            mismatch = Some(format!("{:?}: trail {:?} step {}: real tokio {:?} vs model {:?}", parts.iter().map(|p| &p.0).collect::<Vec<_>>(), trail, at, got.get(at), want.get(at)));
                        }
                        Err(e) => mismatch = Some(format!("{:?}: trail {:?}: {e}", parts.iter().map(|p| &p.0).collect::<Vec<_>>(), trail)),
                    }
                }
            }
            if let Some(trail) = &r.deadlock_trail {
                model_deadlocks.lock().unwrap().push((parts.iter().map(|p| p.0.clone()).collect(), trail.clone(), sys.clone()));
            }
            let mut c = counters.lock().unwrap();
            c.0 += r.states;
            c.1 += r.transitions;
            c.2 += 1;
            c.3 += r.capped as u64;
            c.4 += validated;
            if c.5.is_none() {
                c.5 = mismatch;
            }
        });
        let c = counters.into_inner().unwrap();
        model_states = c.0;
        model_transitions = c.1;
        model_instances = c.2;
        model_capped = c.3;
        traces_validated = c.4;
        conformance_mismatch = c.5;
        // minimal deadlocking subsets only, each confirmed on the real primitives before it is reported
        let mut dls = model_deadlocks.into_inner().unwrap();
        dls.sort_by_key(|d| (d.0.len(), d.0.clone()));
        let mut reported: Vec<Vec<String>> = Vec::new();
        for (names, trail, sys) in dls {
            if reported.iter().any(|r| r.iter().all(|n| names.contains(n))) {
                continue;
            }
            let want = crate::model::model_observations(&sys, &trail);
            match crate::model::replay_on_tokio(&sys, &trail) {
                Ok(got) if got == want && !got.last().map(|o| o.1.is_empty()).unwrap_or(true) => {
                    traces_validated += 1;
                    let blocked: Vec<String> = got.last().unwrap().1.iter().map(|p| sys.proc_names[*p].clone()).collect();
                    let steps: Vec<String> = trail.iter().map(|p| sys.proc_names[*p].clone()).collect();
                    acc.with(|st| {
                        st.violation(Violation {
                            signature: "model-deadlock".into(),
                            witness: json!({"messages": names, "_trail": steps}),
                            detail: format!("all interleavings of the recorded lock programs: after steps {steps:?} the processes {blocked:?} are blocked forever; reproduced on real tokio RwLock/Mutex objects"),
                        })
                    });
                    reported.push(names);
                }
                Ok(_) | Err(_) => {
                    if conformance_mismatch.is_none() {
                        conformance_mismatch = Some(format!("model deadlock of {names:?} did not reproduce on real tokio primitives"));
                    }
                }
            }
        }
    }
    if let Some(m) = &conformance_mismatch {
        // the model does not describe the implementation: that is a machinery error, not a verdict
        rep.machinery_error = Some(format!("C28 model/implementation conformance failed: {m}"));
    }

    // ---- (2) subsets of the menu, sizes 1..=kmax, all schedules to the bound
    let mut tot = ctl::ExploreStats::default();
    let mut scenarios = 0u64;
    let mut completed_k = 0usize;
    let deadlocking: Mutex<Vec<BTreeSet<usize>>> = Mutex::new(Vec::new());
    let mut capped = false;
    let only: Option<Vec<usize>> = args.extra.get("only").map(|o| o.split(',').filter_map(|n| menu.iter().position(|m| cands[*m].0 == n)).collect());
    // iterate the bound: all subset sizes with ≤1 preemption first, then with the full bound
    let bounds: Vec<usize> = if bound > 1 && only.is_none() { vec![1, bound] } else { vec![bound] };
    let mut bound_completed = 0usize;
    for bound in bounds {
    completed_k = 0;
    'k: for k in 1..=kmax {
        let subs = match &only {
            Some(o) => {
                if k == o.len() { vec![o.clone()] } else { vec![] }
            }
            None => subsets(menu.len(), k),
        };
        for subset in subs {
            for &pull in &pull_modes {
                if dl.expired() {
                    capped = true;
                    break 'k;
                }
                let sset: BTreeSet<usize> = subset.iter().copied().collect();
                if deadlocking.lock().unwrap().iter().any(|d| d.is_subset(&sset)) {
                    // explained by a smaller deadlocking subset (reported there)
                    acc.with(|st| st.outcome("superset-of-known-deadlock"));
                    continue;
                }
                let (scn, kinds) = scenario_for(&cands, &menu, &subset, pull);
                scenarios += 1;
                let found: Mutex<Option<(Vec<usize>, Vec<String>, String)>> = Mutex::new(None);
                let st = explore(
                    bound,
                    args.threads,
                    &dl,
                    args.tier.pick(4_000, 400_000),
                    !args.extra.contains_key("nocache"),
                    |prefix| {
                        let e = world::run(&scn, prefix, &thread_root(args));
                        (e.trace.clone(), e)
                    },
                    |_p, tr, e: EndState| {
                        monitor_exec(&e, &kinds, &mut mon.lock().unwrap());
                        acc.with(|st| {
                            st.eval(tr.points.len() > 1);
                            st.outcome(if e.deadlock.is_some() {
                                "deadlock"
                            } else if tr.horizon_hit {
                                "horizon"
                            } else if tr.livelock {
                                "livelock"
                            } else {
                                "quiescent"
                            });
                            if !e.uncontrolled.is_empty() {
                                st.outcome("uncontrolled-thread");
                            }
                            st.sample(|| json!({"scenario": scn.name, "decisions": tr.points.len(), "first_labels": tr.points.iter().take(12).map(|p| p.label.clone()).collect::<Vec<_>>()}));
                        });
                        if let Some(d) = &e.deadlock {
                            let mut f = found.lock().unwrap();
                            let choices: Vec<usize> = tr.points.iter().map(|p| p.chosen).collect();
                            let better = f.as_ref().map(|(c, _, _)| choices.iter().filter(|x| **x != 0).count() < c.iter().filter(|x| **x != 0).count()).unwrap_or(true);
                            if better {
                                *f = Some((choices, tr.points.iter().map(|p| p.label.clone()).collect(), d.clone()));
                            }
                        }
                    },
                );
                tot.add(&st);
                capped |= st.capped;
                if let Some((choices, labels, d)) = found.into_inner().unwrap() {
                    // confirm by replaying twice
                    let root = thread_root(args);
                    let a = world::run(&scn, &choices, &root);
                    let b = world::run(&scn, &choices, &root);
                    if a.deadlock.is_some() && a.deadlock == b.deadlock {
                        deadlocking.lock().unwrap().push(sset.clone());
                        let names: Vec<String> = subset.iter().map(|i| cands[menu[*i]].0.clone()).collect();
                        acc.with(|st| {
                            st.violation(Violation {
                                signature: "deadlock".into(),
                                witness: json!({"messages": names, "pull": pull}),
                                detail: format!("{d}; schedule {:?} (labels {:?})", choices, labels),
                            })
                        });
                        // replay artefact needs the schedule: keep it in the detail and in a side key
                    } else {
                        acc.with(|st| st.outcome("unstable-deadlock-replay"));
                    }
                }
            }
        }
        completed_k = k;
    }
    if capped {
        break;
    }
    bound_completed = bound;
    }

    // ---- (3) lock-order monitor verdicts
    let mon = mon.into_inner().unwrap();
    for cyc in find_cycles(&mon.edges) {
        let mut examples = Vec::new();
        for i in 0..cyc.len() {
            let a = &cyc[i];
            let b = &cyc[(i + 1) % cyc.len()];
            examples.push(format!("{a}→{b} by {}", mon.edges.get(&(a.clone(), b.clone())).cloned().unwrap_or_default()));
        }
        acc.with(|st| st.violation(Violation { signature: "lock-order-cycle".into(), witness: json!({"cycle": cyc}), detail: examples.join("; ") }));
    }
    for ((kind, lock), d) in &mon.reacquire {
        acc.with(|st| st.violation(Violation { signature: "reacquire-held-lock".into(), witness: json!({"handler": kind, "lock": lock}), detail: d.clone() }));
    }
    for ((kind, lock, prim), d) in &mon.hold_across_wait {
        acc.with(|st| st.violation(Violation { signature: "wait-while-holding-contended-lock".into(), witness: json!({"handler": kind, "lock": lock, "awaits": prim}), detail: d.clone() }));
    }

    let stats = acc.stats.into_inner().unwrap();
    let menu_names: Vec<String> = menu.iter().map(|i| cands[*i].0.clone()).collect();
    rep.rule = format!(
        "solo run of each of {} candidate client messages (every registered request method and notification variant) records its lock program; the {} messages that take a write/exclusive lock or more than one lock form the menu; every subset of the menu of size 1..={kmax} is sent behind one didOpen and every schedule with ≤{bound} preemptions is executed on the real server under the controlled tokio; oracles: deadlock state, lock-order graph acyclic, no re-acquisition, no wait on a channel/response while holding a lock a waiter needs. non-trivial = execution with more than one decision",
        cands.len(),
        menu.len()
    );
    rep.exhaustive = !capped && completed_k == kmax && bound_completed == bound && tot.horizon_hits == 0;
    rep.bounds = json!({"subset_size_target": kmax, "subset_size_completed_at_last_bound": completed_k, "preemption_bound_completed_for_all_subsets": bound_completed, "preemption_bound": bound, "scenarios": scenarios, "per_scenario_execution_cap": args.tier.pick(4_000, 400_000), "capped": capped, "horizon_hits": tot.horizon_hits});
    rep.set("states", json!(tot.states + model_states));
    rep.set("transitions", json!(tot.decisions + model_transitions));
    rep.set("decision_points_pruned_by_state_matching", json!(tot.pruned));
    rep.set("traces_validated_against_impl", json!(tot.executions + traces_validated));
    rep.set("schedules", json!(tot.executions));
    rep.set("model_stage", json!({"instances": model_instances, "max_subset_size": model_k, "states": model_states, "transitions": model_transitions, "instances_capped": model_capped, "traces_validated_against_real_tokio": traces_validated}));
    rep.set("menu", json!(menu_names));
    rep.set("same_lock_program_as", json!(same_program));
    rep.set("lock_programs", json!(programs.iter().map(|(n, p)| json!({"message": n, "program": p})).collect::<Vec<_>>()));
    rep.set("lock_order_edges", json!(mon.edges.iter().map(|((a, b), k)| format!("{a}→{b} ({k})")).collect::<Vec<_>>()));
    rep.assumptions = vec![
        "interleavings are explored at tokio synchronisation operations; code between two awaits is atomic (DESIGN §6)".into(),
        "states/transitions count decision points of a stateless search (not deduplicated)".into(),
    ];
    rep.finish(args, stats)
}
