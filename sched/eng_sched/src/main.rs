//! eng_sched — controlled-scheduler exploration of the real language server
//! (C24 cancellation races, C27, C28, C29, C30). See DESIGN.md §1 family C.
mod c24;
mod c27;
mod c28;
mod c29;
mod c30;
mod ctl;
mod model;
mod toy;
mod world;

use serde_json::{Value, json};
use std::path::PathBuf;
use std::sync::Mutex;
use vcore::*;
#[allow(unused_imports)]
use ctl::ExploreStats;

/// Per-thread scratch workspace roots under the --work directory.
pub fn thread_root(args: &Args) -> PathBuf {
    thread_local! { static ID: std::cell::Cell<usize> = const { std::cell::Cell::new(0) }; }
    static NEXT: std::sync::atomic::AtomicUsize = std::sync::atomic::AtomicUsize::new(1);
    let id = ID.with(|c| {
        if c.get() == 0 {
            c.set(NEXT.fetch_add(1, std::sync::atomic::Ordering::Relaxed));
        }
        c.get()
    });
    let base = args.extra.get("work").cloned().unwrap_or_else(|| "/verif/.work/sched".to_string());
    PathBuf::from(base).join(format!("ws{id}"))
}

/// Shared accumulation across explorer worker threads.
pub struct Acc {
    pub stats: Mutex<Stats>,
}
impl Acc {
    pub fn new() -> Self {
        Acc { stats: Mutex::new(Stats::default()) }
    }
    pub fn with<R>(&self, f: impl FnOnce(&mut Stats) -> R) -> R {
        f(&mut self.stats.lock().unwrap())
    }
}

/// Re-run a schedule twice and require identical observations before believing a failure
/// (DESIGN §3.5). Returns the reproduced signature if stable.
pub fn confirm(scn: &world::Scenario, choices: &[usize], root: &std::path::Path, judge: &dyn Fn(&world::EndState) -> Vec<(String, String)>) -> Result<Vec<(String, String)>, String> {
    let a = world::run(scn, choices, root);
    let b = world::run(scn, choices, root);
    let la: Vec<String> = a.trace.points.iter().map(|p| p.label.clone()).collect();
    let lb: Vec<String> = b.trace.points.iter().map(|p| p.label.clone()).collect();
    if la != lb {
        return Err(format!("replay of the same schedule diverged: {la:?} vs {lb:?}"));
    }
    let ja = judge(&a);
    let jb = judge(&b);
    if ja != jb {
        return Err(format!("same schedule, different verdicts: {ja:?} vs {jb:?}"));
    }
    Ok(ja)
}

/// Shorten a failing schedule: try dropping trailing non-default choices / resetting choices to 0
/// while the same signature is still produced.
pub fn minimise_schedule(scn: &world::Scenario, choices: &[usize], root: &std::path::Path, sig: &str, judge: &dyn Fn(&world::EndState) -> Vec<(String, String)>) -> Vec<usize> {
    let mut cur: Vec<usize> = choices.to_vec();
    while cur.last() == Some(&0) {
        cur.pop();
    }
    let fails = |c: &[usize]| -> bool {
        let e = world::run(scn, c, root);
        e.trace.divergence.is_none() && judge(&e).iter().any(|(s, _)| s == sig)
    };
    // reset each non-zero choice to 0 (fewer deviations first)
    let mut i = 0;
    while i < cur.len() {
        if cur[i] != 0 {
            let mut cand = cur.clone();
            cand[i] = 0;
            while cand.last() == Some(&0) {
                cand.pop();
            }
            if fails(&cand) {
                cur = cand;
                i = 0;
                continue;
            }
        }
        i += 1;
    }
    cur
}

pub type Judge<'a> = &'a (dyn Fn(&world::EndState) -> Vec<(String, String)> + Sync);

/// Explore one scenario: every schedule up to `bound` preemptions (modulo happens-before state
/// matching); every failing execution is minimised, replayed twice and recorded with the
/// identity `{"scenario": name}` (the schedule is replay material: `_schedule`, `_labels`).
pub fn explore_scenario(args: &Args, dl: &Deadline, acc: &Acc, scn: &world::Scenario, bound: usize, max_execs: u64, judge: Judge, ok: &str) -> ctl::ExploreStats {
    let reported: Mutex<std::collections::HashSet<String>> = Mutex::new(Default::default());
    ctl::explore(
        bound,
        args.threads,
        dl,
        max_execs,
        !args.extra.contains_key("nocache"),
        |prefix| {
            let e = world::run(scn, prefix, &thread_root(args));
            (e.trace.clone(), e)
        },
        |_prefix, tr, e: world::EndState| {
            let verdicts = if tr.horizon_hit || tr.livelock || tr.divergence.is_some() { vec![] } else { judge(&e) };
            acc.with(|st| {
                st.eval(tr.points.len() > 1);
                if tr.horizon_hit {
                    st.outcome("horizon");
                } else if tr.livelock {
                    st.outcome("livelock");
                } else if tr.divergence.is_some() {
                    st.outcome("replay-divergence");
                } else if verdicts.is_empty() {
                    st.outcome(ok);
                }
                if !e.uncontrolled.is_empty() {
                    st.outcome("uncontrolled-thread");
                }
                st.sample(|| json!({"scenario": scn.name, "schedule": tr.points.iter().map(|p| p.label.clone()).collect::<Vec<_>>()}));
            });
            for (sig, _detail) in verdicts {
                acc.with(|st| {
                    st.outcome(&sig);
                    st.raw_violating_cases += 1;
                });
                // one report per (scenario, signature): the first failing schedule found is minimised
                if !reported.lock().unwrap().insert(sig.clone()) {
                    continue;
                }
                let choices: Vec<usize> = tr.points.iter().map(|p| p.chosen).collect();
                let root = thread_root(args);
                let min = minimise_schedule(scn, &choices, &root, &sig, judge);
                match confirm(scn, &min, &root, judge) {
                    Ok(j) => {
                        if let Some((s, d)) = j.into_iter().find(|(s, _)| *s == sig) {
                            let e2 = world::run(scn, &min, &root);
                            let labels: Vec<String> = e2.trace.points.iter().map(|p| p.label.clone()).collect();
                            acc.with(|st| {
                                st.raw_violating_cases -= 1;
                                st.violation(Violation { signature: s, witness: json!({"scenario": scn.name, "_schedule": min, "_labels": labels}), detail: d })
                            });
                        }
                    }
                    Err(msg) => {
                        reported.lock().unwrap().remove(&sig);
                        acc.with(|st| st.outcome(&format!("unstable:{}", msg.chars().take(40).collect::<String>())))
                    }
                }
            }
        },
    )
}

/// replay helper shared by the scenario-based properties
pub fn replay_scenario(args: &Args, prop: &str, scenarios: Vec<(world::Scenario, Box<dyn Fn(&world::EndState) -> Vec<(String, String)> + Sync>)>) -> ! {
    let w = args.replay_witness().unwrap();
    let sig = w["signature"].as_str().map(String::from);
    let w = if w.get("witness").is_some() { w["witness"].clone() } else { w };
    let name = w["scenario"].as_str().unwrap_or("");
    let choices: Vec<usize> = w["_schedule"].as_array().map(|a| a.iter().map(|x| x.as_u64().unwrap_or(0) as usize).collect()).unwrap_or_default();
    for (scn, judge) in scenarios {
        if scn.name == name {
            let e = world::run(&scn, &choices, &thread_root(args));
            println!("schedule: {:?}", e.trace.points.iter().map(|p| p.label.clone()).collect::<Vec<_>>());
            let j = judge(&e);
            let hit = j.into_iter().find(|(s, _)| sig.as_ref().map(|x| x == s).unwrap_or(true));
            finish_replay(hit.map(|(s, d)| Violation { signature: s, witness: w.clone(), detail: d }), prop);
        }
    }
    die("replay: scenario not found")
}

pub fn finish_sched(args: &Args, mut rep: Report, acc: Acc, tot: &ctl::ExploreStats, complete: bool) -> ! {
    rep.exhaustive = complete && !tot.capped && tot.horizon_hits == 0;
    rep.set("states", json!(tot.states));
    rep.set("transitions", json!(tot.decisions));
    rep.set("traces_validated_against_impl", json!(tot.executions));
    rep.set("schedules", json!(tot.executions));
    rep.set("decision_points_pruned_by_state_matching", json!(tot.pruned));
    rep.set("horizon_hits", json!(tot.horizon_hits));
    rep.assumptions = vec![
        "interleavings are explored at tokio synchronisation operations (semaphore-backed locks, mpsc receive, timers, client answers); code between two awaits is atomic and a task's code before its first synchronisation operation runs eagerly (DESIGN §6)".into(),
        "state matching merges executions with the same happens-before relation (all operations on one object are dependent; environment events are dependent with everything); shared data is assumed to be touched only while holding, or between operations on, instrumented objects".into(),
        "the initialisation pre-phase runs on the default schedule".into(),
    ];
    let stats = acc.stats.into_inner().unwrap();
    rep.finish(args, stats)
}

pub fn witness(scn: &world::Scenario, choices: &[usize], labels: &[String]) -> Value {
    let msgs: Vec<String> = scn
        .messages
        .iter()
        .map(|m| match m {
            world::Msg::Notify(me, p) => format!("{me} {}", short(p)),
            world::Msg::Request(id, me, p) => format!("#{id} {me} {}", short(p)),
        })
        .collect();
    json!({"scenario": scn.name, "messages": msgs, "schedule": choices, "labels": labels})
}

fn short(p: &Value) -> String {
    let uri = p.pointer("/textDocument/uri").and_then(|u| u.as_str()).unwrap_or("").replace("{ROOT}/", "");
    let text = p.pointer("/textDocument/text").or_else(|| p.pointer("/contentChanges/0/text")).and_then(|t| t.as_str()).unwrap_or("");
    if text.is_empty() { uri } else { format!("{uri} {text:?}") }
}

fn main() {
    // HOME/XDG must not leak the developer's own config files into load_emmy_config
    let args = parse_args();
    let work = args.extra.get("work").cloned().unwrap_or_else(|| "/verif/.work/sched".to_string());
    let home = PathBuf::from(&work).join("home");
    std::fs::create_dir_all(&home).ok();
    unsafe {
        std::env::set_var("HOME", &home);
        std::env::set_var("XDG_CONFIG_HOME", home.join(".config"));
        std::env::remove_var("EMMYLUALS_CONFIG");
        // the server's config loading probes for an external `luarocks` on every reload; an empty
        // PATH makes that probe fail immediately and identically everywhere
        let empty = PathBuf::from(&work).join("empty-path");
        std::fs::create_dir_all(&empty).ok();
        std::env::set_var("PATH", &empty);
    }
    // … and hook H7 answers the probe without forking at all (a fork of this multi-threaded process per
    // reload dominated the run time of the reload scenarios)
    emmylua_code_analysis::verif_hooks::set_luarocks_deploy_dir_override(Some(String::new()));
    world::install_panic_recorder();
    match args.prop.as_str() {
        "C24" => c24::run(&args),
        "C27" => c27::run(&args),
        "C29" => c29::run(&args),
        "C30" => c30::run(&args),
        "C28" => c28::run(&args),
        "SELFTEST" => selftest(&args),
        p => die(&format!("eng_sched does not serve {p}")),
    }
}

/// setup-time self test: the controller must find the textbook 2-lock deadlock in a toy
/// program and replay it identically.
fn selftest(args: &Args) -> ! {
    match toy::selftest() {
        Ok(r) => println!("{r}"),
        Err(e) => {
            println!("SELFTEST FAILED: {e}");
            std::process::exit(2)
        }
    }
    // throughput probe on the real server (informational)
    let cands = c28::candidates();
    let msgs: Vec<&(String, Vec<world::Msg>)> = cands.iter().filter(|c| c.0 == "hover" || c.0 == "didChange:a").collect();
    let scn = c28::base_scenario("timing", &msgs, false);
    let t0 = std::time::Instant::now();
    let n = 50;
    let mut dec = 0;
    for _ in 0..n {
        let e = world::run(&scn, &[], &thread_root(args));
        dec += e.trace.points.len();
    }
    println!("real server: {n} executions, {dec} decisions, {:.2} ms per execution", t0.elapsed().as_secs_f64() * 1000.0 / n as f64);
    println!("selftest ok");
    std::process::exit(0)
}
