//! C30 — published diagnostics converge to the current content.
//! Edit/close/delete histories of ≤3 events over two independent documents with a push-diagnostics
//! client (debounce timers are scheduler events); all schedules up to the preemption bound; after
//! every timer has fired the last publishDiagnostics of each open workspace file must equal a
//! fresh diagnosis of the final state, and a removed file's last publication must be empty.
use crate::ctl;
use crate::world::{self, EndState, Scenario};
use crate::{Acc, explore_scenario, finish_sched, replay_scenario};
use lsp_server::Message;
use serde_json::{Value, json};
use std::collections::HashMap;
use vcore::*;

#[derive(Clone, Copy, Debug, PartialEq)]
enum E {
    Open(usize, usize),
    Change(usize, usize),
    Close(usize),
    Delete(usize),
}
const DOCS: [&str; 2] = ["a.lua", "n.lua"]; // a.lua exists on disk, n.lua does not
const TEXTS: [&str; 3] = ["local ok = 1\nreturn ok\n", "undefined_global_fn()\n", "local broken = \n"];
const DISK_A: &str = "local disk = undefined_on_disk\nreturn disk\n";

fn histories(max: usize) -> Vec<Vec<E>> {
    let mut out = Vec::new();
    fn rec(cur: &mut Vec<E>, open: [bool; 2], deleted: [bool; 2], max: usize, out: &mut Vec<Vec<E>>) {
        if !cur.is_empty() {
            out.push(cur.clone());
        }
        if cur.len() == max {
            return;
        }
        for d in 0..2 {
            let mut nexts = Vec::new();
            if open[d] {
                for t in 0..3 {
                    nexts.push(E::Change(d, t));
                }
                nexts.push(E::Close(d));
            } else {
                nexts.push(E::Open(d, 1));
                nexts.push(E::Open(d, 0));
            }
            if d == 0 && !deleted[d] && !open[d] {
                nexts.push(E::Delete(d));
            }
            for n in nexts {
                // keep the space small: a change to the text the document already has is skipped
                if let (Some(E::Change(d0, t0) | E::Open(d0, t0)), E::Change(d1, t1)) = (cur.iter().rev().find(|e| matches!(e, E::Change(x, _) | E::Open(x, _) if *x == d)), n) {
                    if *d0 == d1 && *t0 == t1 {
                        continue;
                    }
                }
                let mut o = open;
                let mut del = deleted;
                match n {
                    E::Open(d, _) => o[d] = true,
                    E::Close(d) => o[d] = false,
                    E::Delete(d) => del[d] = true,
                    _ => {}
                }
                cur.push(n);
                rec(cur, o, del, max, out);
                cur.pop();
            }
        }
    }
    rec(&mut Vec::new(), [false; 2], [false; 2], max, &mut out);
    out
}

fn scenario(h: &[E], late: bool) -> Scenario {
    let mut s = Scenario::new(&format!("{}{}", h.iter().map(|e| format!("{e:?}")).collect::<Vec<_>>().join(","), if late { ":last-arrives-late" } else { "" }));
    // the last event's message is not queued with the others: its arrival is a scheduler event, so it can
    // land while debounced tasks of the earlier events are waiting, running or publishing
    s.late_messages = late as usize;
    s.disk = vec![("a.lua".into(), DISK_A.into()), ("b.lua".into(), "local b = 1\nreturn b\n".into())];
    s.pull_diagnostics = false;
    let mut version = 1;
    for e in h {
        version += 1;
        match e {
            E::Open(d, t) => s.messages.push(world::did_open(DOCS[*d], TEXTS[*t])),
            E::Change(d, t) => s.messages.push(world::did_change(DOCS[*d], version, TEXTS[*t])),
            E::Close(d) => s.messages.push(world::did_close(DOCS[*d])),
            E::Delete(d) => {
                // the file disappears from disk, then the client reports it
                s.disk.retain(|(r, _)| r != DOCS[*d]);
                s.messages.push(world::watched(&[(DOCS[*d], 3)]));
            }
        }
    }
    s
}

fn judge_for(h: Vec<E>) -> impl Fn(&EndState) -> Vec<(String, String)> + Sync {
    move |e: &EndState| {
        let mut v = Vec::new();
        if let Some(d) = &e.deadlock {
            v.push(("deadlock".to_string(), d.clone()));
            return v;
        }
        for p in &e.panics {
            v.push((format!("panic:{}", panic_site(p)), p.clone()));
        }
        // last publication per document in the explored phase
        let mut last: HashMap<String, Value> = HashMap::new();
        for s in &e.seen {
            if let Message::Notification(n) = &s.msg {
                if n.method == "textDocument/publishDiagnostics" {
                    let uri = n.params["uri"].as_str().unwrap_or("");
                    let rel = uri.strip_prefix(&e.root_uri).map(|r| r.trim_start_matches('/').to_string()).unwrap_or(uri.to_string());
                    last.insert(rel, n.params["diagnostics"].clone());
                }
            }
        }
        for (d, rel) in DOCS.iter().enumerate() {
            let touched = h.iter().any(|x| matches!(x, E::Open(i, _) | E::Change(i, _) | E::Close(i) | E::Delete(i) if *i == d));
            if !touched {
                continue;
            }
            let open_now = e.open_texts.contains_key(*rel);
            let in_analysis = e.vfs_texts.get(*rel).cloned().flatten().is_some();
            if open_now && in_analysis {
                let fresh = e.final_diagnostics.get(*rel).cloned().unwrap_or(json!([]));
                match last.get(*rel) {
                    None => v.push(("open-file-never-published".into(), format!("{rel}: no publishDiagnostics although the file is open and was edited"))),
                    Some(p) if *p != fresh => v.push((
                        "published-diagnostics-stale".into(),
                        format!("{rel}: last published {} diagnostics, a fresh diagnosis of the final content gives {}", p.as_array().map(|a| a.len()).unwrap_or(0), fresh.as_array().map(|a| a.len()).unwrap_or(0)),
                    )),
                    _ => {}
                }
            } else if !in_analysis {
                // removed from the analysis: the last publication (if the server ever published for it) must be empty
                if let Some(p) = last.get(*rel) {
                    if p.as_array().map(|a| !a.is_empty()).unwrap_or(true) {
                        v.push(("removed-file-keeps-diagnostics".into(), format!("{rel} is no longer analysed but its last published set has {} diagnostics", p.as_array().map(|a| a.len()).unwrap_or(0))));
                    }
                }
            }
        }
        v
    }
}

pub fn run(args: &Args) -> ! {
    if args.replay.is_some() {
        let all = histories(4)
            .into_iter()
            .flat_map(|h| [false, true].map(|late| (scenario(&h, late), Box::new(judge_for(h.clone())) as Box<dyn Fn(&EndState) -> Vec<(String, String)> + Sync>)))
            .collect();
        replay_scenario(args, "C30", all);
    }
    let dl = args.deadline();
    let (max, bound) = args.tier.pick((3usize, 2usize), (4, 3));
    let bound = args.extra_usize("bound").unwrap_or(bound);
    let mut rep = Report::new("C30", "model_checking");
    let acc = Acc::new();
    let mut tot = ctl::ExploreStats::default();
    let hs = histories(max);
    let mut run_n = 0;
    let mut complete = true;
    'h: for h in &hs {
        for late in [false, true] {
            if late && h.len() < 2 {
                continue;
            }
            if dl.expired() {
                complete = false;
                break 'h;
            }
            run_n += 1;
            let scn = scenario(h, late);
            let judge = judge_for(h.clone());
            let st = explore_scenario(args, &dl, &acc, &scn, bound, args.tier.pick(20_000, 400_000), &judge, "converged");
            tot.add(&st);
        }
    }
    rep.rule = format!(
        "every history of ≤{max} open/change/close/delete events over an on-disk and a not-on-disk document ({} histories; each also with its last event arriving late, as a scheduler event; {run_n} scenarios run) with a push-diagnostics client, fed to the real server loop; debounce timers are scheduler events; every schedule with ≤{bound} preemptions modulo happens-before state matching; oracle after all timers fired: last publishDiagnostics of each open workspace file == fresh diagnosis of the final state; removed file ⇒ last publication empty. non-trivial = more than one decision",
        hs.len()
    );
    rep.bounds = json!({"max_events": max, "preemption_bound": bound, "histories_total": hs.len(), "histories_run": run_n, "wall_cap_hit": dl.was_hit()});
    finish_sched(args, rep, acc, &tot, complete)
}
