//! Building the real server for one execution and driving it under a schedule.
use crate::ctl::{Choice, Controller, ExecTrace};
use emmylua_code_analysis::{Emmyrc, WorkspaceFolder, file_path_to_uri};
use emmylua_ls::verif_api::{AsyncConnection, ClientConfig, ServerContextSnapshot, VerifServer, init_analysis};
use lsp_server::{Connection, Message, Notification, Request, RequestId, Response};
use lsp_types::{ClientCapabilities, InitializeParams, Uri};
use serde_json::{Value, json};
use std::collections::HashMap;
use std::path::{Path, PathBuf};
use std::sync::Arc;
use tokio::verif;

/// a message the client sends; `{ROOT}` in any string is replaced by the workspace root URI
#[derive(Clone, Debug)]
pub enum Msg {
    Notify(&'static str, Value),
    Request(i32, &'static str, Value),
}

#[derive(Clone, Debug)]
pub struct Scenario {
    pub name: String,
    /// files present on disk before the server starts: (relative path, text)
    pub disk: Vec<(String, String)>,
    pub messages: Vec<Msg>,
    /// pull-diagnostics client (no debounced push tasks) or push client
    pub pull_diagnostics: bool,
    /// answers the client gives to server→client requests that wait for one; index 0 is used
    /// by default, `None` = never answers
    pub client_answers: Vec<Option<Value>>,
    /// emmyrc overrides (JSON merged over the default)
    pub emmyrc: Value,
    /// on-disk modifications the harness may perform as scheduler events: (rel path, Some(text)|None=delete)
    pub disk_events: Vec<(String, Option<String>)>,
    /// keep the server's initialisation window open: its end is a scheduler event
    pub init_as_event: bool,
    /// the last `late_messages` messages are not in the channel when the server starts; each arrives as a
    /// scheduler event (in message order)
    pub late_messages: usize,
    pub max_steps: usize,
}

impl Scenario {
    pub fn new(name: &str) -> Self {
        Scenario {
            name: name.to_string(),
            disk: vec![],
            messages: vec![],
            pull_diagnostics: false,
            client_answers: vec![Some(Value::Null)],
            emmyrc: json!({}),
            disk_events: vec![],
            init_as_event: false,
            late_messages: 0,
            max_steps: 400,
        }
    }
}

pub fn subst(v: &Value, root_uri: &str) -> Value {
    match v {
        Value::String(s) => Value::String(s.replace("{ROOT}", root_uri)),
        Value::Array(a) => Value::Array(a.iter().map(|x| subst(x, root_uri)).collect()),
        Value::Object(o) => Value::Object(o.iter().map(|(k, x)| (k.clone(), subst(x, root_uri))).collect()),
        x => x.clone(),
    }
}

/// What the client saw, tagged with the decision index at which it was drained.
#[derive(Clone, Debug)]
pub struct Seen {
    pub step: usize,
    pub msg: Message,
}

/// End state handed to the oracles (all awaits on the server's locks are done by the root
/// future at quiescence, when nothing else runs).
pub struct EndState {
    pub trace: ExecTrace,
    pub seen: Vec<Seen>,
    pub events: Vec<verif::Ev>,
    pub names: HashMap<usize, String>,
    pub final_tasks: Vec<verif::TaskView>,
    pub deadlock: Option<String>,
    pub uncontrolled: Vec<String>,
    /// per document uri (root-relative): is it in workspace_manager's open set, with which text
    pub open_texts: HashMap<String, String>,
    /// per document (root-relative path): text the analysis (VFS) holds, None = no file id / removed
    pub vfs_texts: HashMap<String, Option<String>>,
    /// fresh diagnosis of every file the analysis holds (root-relative) in its final state
    pub final_diagnostics: HashMap<String, Value>,
    pub disk_texts: HashMap<String, Option<String>>,
    pub panics: Vec<String>,
    pub root_uri: String,
}

pub fn caps(pull: bool) -> ClientCapabilities {
    let mut v = json!({
        "workspace": { "didChangeWatchedFiles": { "dynamicRegistration": true }, "configuration": true },
        "window": { "workDoneProgress": false }
    });
    if pull {
        v["textDocument"] = json!({ "diagnostic": { "dynamicRegistration": false } });
    }
    serde_json::from_value(v).expect("caps")
}

thread_local! {
    /// what this thread's scratch workspace currently holds on disk (None = unknown/dirty)
    static ON_DISK: std::cell::RefCell<Option<(PathBuf, Vec<(String, String)>)>> = const { std::cell::RefCell::new(None) };
}

/// Brings the scratch workspace to exactly `files`. Directory creation/removal in a shared
/// parent serialises the worker threads in the kernel, so the tree is only touched where it
/// differs from what the previous execution on this thread left behind.
fn write_disk(root: &Path, files: &[(String, String)]) {
    let known = ON_DISK.with(|d| d.borrow().clone());
    match known {
        Some((r, have)) if r == root => {
            if have == files {
                return;
            }
            for (rel, _) in &have {
                if !files.iter().any(|(r2, _)| r2 == rel) {
                    let _ = std::fs::remove_file(root.join(rel));
                }
            }
            for (rel, text) in files {
                if have.iter().any(|(r2, t2)| r2 == rel && t2 == text) {
                    continue;
                }
                let p = root.join(rel);
                if let Some(d) = p.parent() {
                    std::fs::create_dir_all(d).ok();
                }
                std::fs::write(&p, text).expect("write ws file");
            }
        }
        _ => {
            let _ = std::fs::remove_dir_all(root);
            std::fs::create_dir_all(root).expect("mkdir ws");
            for (rel, text) in files {
                let p = root.join(rel);
                if let Some(d) = p.parent() {
                    std::fs::create_dir_all(d).ok();
                }
                std::fs::write(&p, text).expect("write ws file");
            }
        }
    }
    ON_DISK.with(|d| *d.borrow_mut() = Some((root.to_path_buf(), files.to_vec())));
}

fn mark_disk_dirty() {
    ON_DISK.with(|d| *d.borrow_mut() = None);
}

fn rel_of(uri: &Uri, root_uri: &str) -> String {
    let s = uri.as_str().to_string();
    s.strip_prefix(root_uri).map(|r| r.trim_start_matches('/').to_string()).unwrap_or(s)
}

thread_local! {
    static PANICS: std::cell::RefCell<Vec<String>> = const { std::cell::RefCell::new(Vec::new()) };
}

pub fn install_panic_recorder() {
    let prev = std::panic::take_hook();
    std::panic::set_hook(Box::new(move |info| {
        let loc = info.location().map(|l| format!("{}:{}", l.file(), l.line())).unwrap_or_default();
        let msg = info.payload().downcast_ref::<&str>().map(|s| s.to_string()).or_else(|| info.payload().downcast_ref::<String>().cloned()).unwrap_or_default();
        let recorded = PANICS.try_with(|p| p.borrow_mut().push(format!("{msg} @ {loc}"))).is_ok();
        if !recorded {
            prev(info);
        }
    }));
}

/// Runs `scn` once under the schedule `prefix` (then default choices). `root` is a scratch
/// directory private to the calling thread.
pub static PROFILE: std::sync::atomic::AtomicBool = std::sync::atomic::AtomicBool::new(false);
fn prof(label: &str, t: &mut std::time::Instant) {
    if PROFILE.load(std::sync::atomic::Ordering::Relaxed) {
        eprintln!("  {label}: {:.2} ms", t.elapsed().as_secs_f64() * 1000.0);
    }
    *t = std::time::Instant::now();
}

pub fn run(scn: &Scenario, prefix: &[usize], root: &Path) -> EndState {
    PANICS.with(|p| p.borrow_mut().clear());
    let mut t = std::time::Instant::now();
    write_disk(root, &scn.disk);
    prof("write_disk", &mut t);
    let root = root.canonicalize().unwrap_or(root.to_path_buf());
    let rt = tokio::runtime::Builder::new_current_thread().enable_all().start_paused(true).build().expect("runtime");
    prof("runtime build", &mut t);
    let out = rt.block_on(drive(scn, prefix, root));
    prof("drive", &mut t);
    verif::uninstall();
    drop(rt);
    prof("runtime drop", &mut t);
    out
}

async fn drive(scn: &Scenario, prefix: &[usize], root: PathBuf) -> EndState {
    let mut t = std::time::Instant::now();
    let root_uri_full = file_path_to_uri(&root).expect("root uri");
    let root_uri = root_uri_full.as_str().trim_end_matches('/').to_string();
    let t0 = tokio::time::Instant::now();
    verif::install(true);

    // ---- build the server exactly as main_loop does, minus stdio
    let (server_conn, client_conn) = Connection::memory();
    let (tx, rx) = tokio::sync::mpsc::unbounded_channel::<Message>();
    let conn = AsyncConnection::verif_from_parts(Connection { sender: server_conn.sender.clone(), receiver: server_conn.receiver.clone() }, rx);
    let capabilities = caps(scn.pull_diagnostics);
    #[allow(deprecated)]
    let params = InitializeParams { capabilities: capabilities.clone(), ..Default::default() };
    let (init_tx, init_rx) = tokio::sync::oneshot::channel::<()>();
    let mut server = VerifServer::new(conn, &params, init_rx);
    let ctx: ServerContextSnapshot = server.snapshot();

    prof("  server new", &mut t);
    // name the server's locks (first use decides the canonical index; the hook touches each once)
    server.context().verif_touch_locks(&mut |n| verif::label_next(n));

    // ---- deterministic initialisation pre-phase (what initialized_handler does, minus client round-trips)
    // the configuration is a pure function of the scenario's overrides: build it once per thread
    // (no path expansion is needed — the overrides never contain paths — and
    // pre_process_emmyrc would spawn an external `luarocks` lookup on every call)
    thread_local! { static EMMYRC: std::cell::RefCell<Option<(String, Arc<Emmyrc>)>> = const { std::cell::RefCell::new(None) }; }
    let key = scn.emmyrc.to_string();
    let emmyrc: Arc<Emmyrc> = EMMYRC.with(|c| {
        let mut c = c.borrow_mut();
        if let Some((k, e)) = c.as_ref() {
            if *k == key {
                return e.clone();
            }
        }
        let mut emmyrc_json = serde_json::to_value(Emmyrc::default()).unwrap_or(json!({}));
        merge(&mut emmyrc_json, &scn.emmyrc);
        let e: Arc<Emmyrc> = Arc::new(serde_json::from_value(emmyrc_json).unwrap_or_default());
        *c = Some((key.clone(), e.clone()));
        e
    });
    let folders = vec![WorkspaceFolder::new(root.clone(), false)];
    {
        let mut wm = ctx.workspace_manager().write().await;
        wm.workspace_folders = folders.clone();
        wm.client_config = ClientConfig::default();
        wm.update_match_state(emmyrc.as_ref());
    }
    prof("  emmyrc", &mut t);
    init_analysis(ctx.analysis(), ctx.status_bar(), ctx.file_diagnostic(), ctx.lsp_features(), folders, emmyrc.clone(), Vec::new()).await;
    prof("  init_analysis", &mut t);
    let mut init_tx = Some(init_tx);
    if !scn.init_as_event {
        let _ = init_tx.take().unwrap().send(());
    }

    let mut seen: Vec<Seen> = Vec::new();
    let mut outstanding: Vec<RequestId> = Vec::new();

    // run the initialisation's own background tasks (workspace diagnostics) to quiescence on the default schedule
    {
        let empty: [usize; 0] = [];
        let mut pre = Controller::new(&empty, 2000);
        let names = verif::object_names();
        loop {
            if !pre.settle().await {
                break;
            }
            while let Ok(m) = client_conn.receiver.try_recv() {
                let _ = m;
            }
            let (en, running) = pre.enabled(&[]);
            if en.is_empty() {
                break;
            }
            let Some(ch) = pre.decide(&en, running, &names, 0) else { break };
            apply(&ch, t0, &tx, &scn.client_answers).await;
        }
    }
    prof("  pre-phase", &mut t);
    let pre_events = verif::trace().len();

    // ---- the explored phase: the real server loop as a tracked task, client messages pre-loaded
    let to_message = |m: &Msg| match m {
        Msg::Notify(method, p) => Message::Notification(Notification { method: method.to_string(), params: subst(p, &root_uri) }),
        Msg::Request(id, method, p) => Message::Request(Request { id: (*id).into(), method: method.to_string(), params: subst(p, &root_uri) }),
    };
    let n_early = scn.messages.len().saturating_sub(scn.late_messages);
    for m in &scn.messages[..n_early] {
        let _ = tx.send(to_message(m));
    }
    let mut late_next = n_early;
    let server_task = tokio::spawn(async move {
        let _ = server.run().await;
    });
    verif::label_next("client_channel");

    let mut ctl = Controller::new(prefix, scn.max_steps);
    let mut deadlock = None;
    let mut disk_left: Vec<(String, Option<String>)> = scn.disk_events.clone();
    loop {
        if !ctl.settle().await {
            break;
        }
        let step = ctl.trace.points.len();
        while let Ok(m) = client_conn.receiver.try_recv() {
            if let Message::Request(r) = &m {
                // requests that wait for an answer become environment events; fire-and-forget ones are just seen
                if !matches!(r.method.as_str(), "client/registerCapability" | "client/unregisterCapability" | "workspace/diagnostic/refresh" | "workspace/semanticTokens/refresh" | "workspace/inlayHint/refresh" | "workspace/codeLens/refresh") {
                    outstanding.push(r.id.clone());
                }
            }
            seen.push(Seen { step, msg: m });
        }
        let mut env: Vec<Choice> = Vec::new();
        if let Some(id) = outstanding.first() {
            for (ai, a) in scn.client_answers.iter().enumerate() {
                if a.is_some() {
                    env.push(Choice::ClientAnswer { id: id.to_string(), answer: ai });
                }
            }
        }
        if !disk_left.is_empty() {
            env.push(Choice::Disk { index: scn.disk_events.len() - disk_left.len() });
        }
        if init_tx.is_some() {
            env.push(Choice::InitDone);
        }
        if late_next < scn.messages.len() {
            env.push(Choice::ClientMsg { index: late_next });
        }
        let names = verif::object_names();
        let (en, running) = ctl.enabled(&env);
        if en.is_empty() {
            // quiescent or deadlocked
            let stuck: Vec<String> = verif::tasks()
                .iter()
                .filter(|t| t.status != verif::Status::Done)
                .flat_map(|t| {
                    t.blocked.iter().filter(|o| o.kind == verif::OpKind::Acquire).map(|o| {
                        let held: Vec<String> = t.held.iter().map(|h| names.get(&h.0).cloned().unwrap_or(format!("o{}", h.0))).collect();
                        format!("t{} waits for {} holding [{}]", t.task, names.get(&o.obj).cloned().unwrap_or(format!("o{}", o.obj)), held.join(","))
                    }).collect::<Vec<_>>()
                })
                .collect();
            if !stuck.is_empty() {
                deadlock = Some(stuck.join("; "));
            }
            break;
        }
        let mut extra = (outstanding.len() as u64) << 8 | disk_left.len() as u64 | (init_tx.is_some() as u64) << 20 | ((scn.messages.len() - late_next) as u64) << 24;
        for (d, _) in verif::timers() {
            extra = extra.wrapping_mul(1099511628211).wrapping_add(d);
        }
        let Some(ch) = ctl.decide(&en, running, &names, extra) else { break };
        match &ch {
            Choice::InitDone => {
                if let Some(tx0) = init_tx.take() {
                    let _ = tx0.send(());
                }
            }
            Choice::ClientMsg { index } => {
                let _ = tx.send(to_message(&scn.messages[*index]));
                late_next = index + 1;
            }
            Choice::Disk { .. } => {
                mark_disk_dirty();
                let (rel, text) = disk_left.remove(0);
                let p = root.join(&rel);
                let typ = match text {
                    Some(t) => {
                        std::fs::write(&p, t).ok();
                        2
                    }
                    None => {
                        std::fs::remove_file(&p).ok();
                        3
                    }
                };
                // the client reports the change, as a file watcher would
                let m = watched(&[(rel.as_str(), typ)]);
                if let Msg::Notify(method, params) = m {
                    let _ = tx.send(Message::Notification(Notification { method: method.to_string(), params: subst(&params, &root_uri) }));
                }
            }
            Choice::ClientAnswer { id, answer } => {
                let rid = outstanding.remove(0);
                debug_assert_eq!(&rid.to_string(), id);
                let result = scn.client_answers[*answer].clone().unwrap_or(Value::Null);
                let _ = tx.send(Message::Response(Response { id: rid, result: Some(result), error: None }));
            }
            _ => apply(&ch, t0, &tx, &scn.client_answers).await,
        }
    }
    let step = ctl.trace.points.len();
    while let Ok(m) = client_conn.receiver.try_recv() {
        seen.push(Seen { step, msg: m });
    }

    prof("  explored phase", &mut t);
    // ---- observations at the end (nothing else can run: all tasks parked, blocked or done)
    let final_tasks = verif::tasks();
    let events: Vec<verif::Ev> = verif::trace().into_iter().skip(pre_events).collect();
    let names = verif::object_names();
    let uncontrolled = verif::uncontrolled();
    let mut open_texts = HashMap::new();
    let mut vfs_texts = HashMap::new();
    let mut final_diagnostics = HashMap::new();
    let mut disk_texts = HashMap::new();
    if deadlock.is_none() {
        if let Ok(wm) = ctx.workspace_manager().try_read() {
            for (uri, text) in wm.workspace_open_files() {
                open_texts.insert(rel_of(&uri, &root_uri), text);
            }
        }
        if let Ok(an) = ctx.analysis().try_read() {
            let db = an.compilation.get_db();
            let mut rels: Vec<String> = scn.disk.iter().map(|(r, _)| r.clone()).collect();
            for m in &scn.messages {
                let p = match m {
                    Msg::Notify(_, p) | Msg::Request(_, _, p) => p,
                };
                if let Some(u) = p.pointer("/textDocument/uri").and_then(|u| u.as_str()) {
                    let rel = u.replace("{ROOT}/", "");
                    if !rels.contains(&rel) {
                        rels.push(rel);
                    }
                }
            }
            for rel in rels {
                let p = root.join(&rel);
                disk_texts.insert(rel.clone(), std::fs::read_to_string(&p).ok());
                let Some(uri) = file_path_to_uri(&p) else { continue };
                let fid = an.get_file_id(&uri);
                let text = fid.and_then(|f| db.get_vfs().get_document(&f).map(|d| d.get_text().to_string()));
                vfs_texts.insert(rel.clone(), text);
                if let Some(f) = fid {
                    let d = an.diagnose_file(f, tokio_util::sync::CancellationToken::new());
                    final_diagnostics.insert(rel, serde_json::to_value(d.unwrap_or_default()).unwrap_or(Value::Null));
                }
            }
        }
    }
    prof("  end observations", &mut t);
    server_task.abort();
    let panics = PANICS.with(|p| p.borrow().clone());
    EndState {
        trace: ctl.trace,
        seen,
        events,
        names,
        final_tasks,
        deadlock,
        uncontrolled,
        open_texts,
        vfs_texts,
        final_diagnostics,
        disk_texts,
        panics,
        root_uri,
    }
}

async fn apply(ch: &Choice, t0: tokio::time::Instant, _tx: &tokio::sync::mpsc::UnboundedSender<Message>, _answers: &[Option<Value>]) {
    match ch {
        Choice::Gate { task, gate, .. } => {
            verif::release(*task, *gate);
        }
        Choice::Timer { deadline_ms } => {
            let now = tokio::time::Instant::now().duration_since(t0).as_millis() as u64;
            let d = deadline_ms.saturating_sub(now) + 1;
            verif::note_timer_fired(*deadline_ms);
            tokio::time::advance(std::time::Duration::from_millis(d)).await;
        }
        Choice::ClientAnswer { .. } | Choice::Disk { .. } | Choice::ClientMsg { .. } | Choice::InitDone => {}
    }
}

fn merge(a: &mut Value, b: &Value) {
    match (a, b) {
        (Value::Object(a), Value::Object(b)) => {
            for (k, v) in b {
                merge(a.entry(k.clone()).or_insert(Value::Null), v);
            }
        }
        (a, b) => *a = b.clone(),
    }
}

// ---------------------------------------------------------------- message constructors

pub fn did_open(rel: &str, text: &str) -> Msg {
    Msg::Notify("textDocument/didOpen", json!({"textDocument": {"uri": format!("{{ROOT}}/{rel}"), "languageId": "lua", "version": 1, "text": text}}))
}
pub fn did_change(rel: &str, version: i32, text: &str) -> Msg {
    Msg::Notify("textDocument/didChange", json!({"textDocument": {"uri": format!("{{ROOT}}/{rel}"), "version": version}, "contentChanges": [{"text": text}]}))
}
pub fn did_close(rel: &str) -> Msg {
    Msg::Notify("textDocument/didClose", json!({"textDocument": {"uri": format!("{{ROOT}}/{rel}")}}))
}
pub fn did_save(rel: &str) -> Msg {
    Msg::Notify("textDocument/didSave", json!({"textDocument": {"uri": format!("{{ROOT}}/{rel}")}}))
}
pub fn watched(changes: &[(&str, u32)]) -> Msg {
    Msg::Notify("workspace/didChangeWatchedFiles", json!({"changes": changes.iter().map(|(rel, t)| json!({"uri": format!("{{ROOT}}/{rel}"), "type": t})).collect::<Vec<_>>()}))
}
pub fn did_change_configuration() -> Msg {
    Msg::Notify("workspace/didChangeConfiguration", json!({"settings": {}}))
}
pub fn request(id: i32, method: &'static str, params: Value) -> Msg {
    Msg::Request(id, method, params)
}
pub fn cancel(id: i32) -> Msg {
    Msg::Notify("$/cancelRequest", json!({"id": id}))
}
pub fn doc_pos(rel: &str, line: u32, ch: u32) -> Value {
    json!({"textDocument": {"uri": format!("{{ROOT}}/{rel}")}, "position": {"line": line, "character": ch}})
}
pub fn doc_only(rel: &str) -> Value {
    json!({"textDocument": {"uri": format!("{{ROOT}}/{rel}")}})
}
