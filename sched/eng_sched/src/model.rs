//! C28 second stage — an explicit-state model of the server's lock programs, bound to the code.
//!
//! * The **programs** are recordings: for every menu message the per-task sequences of
//!   acquire/release/spawn operations on the server's named locks, taken from a solo run of the
//!   real server on the current tree (so a handler edited tomorrow yields a different model).
//! * The **lock semantics** is tokio's batch semaphore (FIFO queue, partial acquisition — which
//!   is what makes `RwLock` write-preferring), transcribed in `Model::acquire/release`.
//! * The search is a breadth-first enumeration of ALL interleavings (no preemption bound) of
//!   every subset of ≤k menu messages; a state with no enabled step and an unfinished process
//!   is a deadlock.
//! * **Conformance**: model traces are replayed step by step against real `tokio::sync::RwLock`
//!   / `Mutex` objects under the controlled scheduler (`replay_on_tokio`); after every step the
//!   set of blocked processes and every program counter must agree. A model deadlock is only
//!   reported after its trail has reproduced on the real primitives.
use std::collections::{HashMap, HashSet, VecDeque};
use std::sync::Arc;

#[derive(Clone, Debug, PartialEq, Eq, Hash)]
pub enum Op {
    /// acquire n permits of lock l
    Acq(usize, u32),
    /// release n permits of lock l
    Rel(usize, u32),
    /// start process p
    Spawn(usize),
}

#[derive(Clone, Debug)]
pub struct System {
    pub lock_names: Vec<String>,
    pub totals: Vec<u32>,
    pub progs: Vec<Vec<Op>>,
    /// processes that run from the start (the others are started by a Spawn)
    pub roots: Vec<usize>,
    pub proc_names: Vec<String>,
}

#[derive(Clone, Debug, PartialEq, Eq, Hash)]
pub struct State {
    pub pc: Vec<u16>,
    pub started: Vec<bool>,
    pub avail: Vec<u32>,
    /// FIFO wait queues: (process, permits still needed)
    pub queue: Vec<Vec<(u16, u32)>>,
}

impl System {
    pub fn initial(&self) -> State {
        let mut s = State {
            pc: vec![0; self.progs.len()],
            started: vec![false; self.progs.len()],
            avail: self.totals.clone(),
            queue: vec![vec![]; self.totals.len()],
        };
        let mut wl: VecDeque<usize> = VecDeque::new();
        for &r in &self.roots {
            s.started[r] = true;
            wl.push_back(r);
        }
        self.run_segments(&mut s, wl);
        s
    }

    fn waiting(&self, s: &State, p: usize) -> bool {
        s.queue.iter().any(|q| q.iter().any(|(w, _)| *w as usize == p))
    }

    pub fn finished(&self, s: &State, p: usize) -> bool {
        !s.started[p] || s.pc[p] as usize >= self.progs[p].len()
    }

    /// processes parked at an acquire (their gate), not blocked
    pub fn enabled(&self, s: &State) -> Vec<usize> {
        (0..self.progs.len())
            .filter(|&p| s.started[p] && (s.pc[p] as usize) < self.progs[p].len() && matches!(self.progs[p][s.pc[p] as usize], Op::Acq(..)) && !self.waiting(s, p))
            .collect()
    }

    pub fn blocked(&self, s: &State) -> Vec<usize> {
        (0..self.progs.len()).filter(|&p| self.waiting(s, p)).collect()
    }

    pub fn deadlocked(&self, s: &State) -> bool {
        self.enabled(s).is_empty() && !self.blocked(s).is_empty()
    }

    /// One decision: process p attempts the acquire at its pc; if granted it runs on to its next
    /// acquire, and so does (in wake order) every process a release on the way wakes up.
    pub fn step(&self, s: &State, p: usize) -> State {
        let mut n = s.clone();
        let Op::Acq(l, need) = self.progs[p][n.pc[p] as usize].clone() else { unreachable!() };
        // tokio batch semaphore: take what is there; queue for the rest
        if n.avail[l] >= need {
            n.avail[l] -= need;
            n.pc[p] += 1;
            let mut wl = VecDeque::new();
            wl.push_back(p);
            self.run_segments(&mut n, wl);
        } else {
            let got = n.avail[l];
            n.avail[l] = 0;
            n.queue[l].push((p as u16, need - got));
        }
        n
    }

    /// runs every process in the worklist from its pc up to its next acquire (releases wake
    /// waiters, which are appended to the worklist in wake order; spawns start processes)
    fn run_segments(&self, s: &mut State, mut wl: VecDeque<usize>) {
        while let Some(p) = wl.pop_front() {
            loop {
                let pc = s.pc[p] as usize;
                if pc >= self.progs[p].len() {
                    break;
                }
                match self.progs[p][pc].clone() {
                    Op::Acq(..) => break,
                    Op::Rel(l, n) => {
                        s.pc[p] += 1;
                        let mut rem = n;
                        while rem > 0 && !s.queue[l].is_empty() {
                            let (w, need) = s.queue[l][0];
                            let give = need.min(rem);
                            rem -= give;
                            if give == need {
                                s.queue[l].remove(0);
                                // the waiter's acquire completes: it continues after the acquire
                                s.pc[w as usize] += 1;
                                wl.push_back(w as usize);
                            } else {
                                s.queue[l][0].1 = need - give;
                            }
                        }
                        s.avail[l] += rem;
                    }
                    Op::Spawn(c) => {
                        s.pc[p] += 1;
                        if !s.started[c] {
                            s.started[c] = true;
                            wl.push_back(c);
                        }
                    }
                }
            }
        }
    }
}

pub struct SearchResult {
    pub states: u64,
    pub transitions: u64,
    pub deadlock_trail: Option<Vec<usize>>,
    pub capped: bool,
}

/// Breadth-first search over all interleavings; returns the shortest trail to a deadlock.
pub fn search(sys: &System, max_states: usize) -> SearchResult {
    let init = sys.initial();
    let mut seen: HashMap<State, (Option<u32>, u16)> = HashMap::new(); // state -> (parent index, step)
    let mut order: Vec<State> = vec![init.clone()];
    seen.insert(init, (None, 0));
    let mut transitions = 0u64;
    let mut i = 0usize;
    let mut capped = false;
    while i < order.len() {
        let s = order[i].clone();
        if sys.deadlocked(&s) {
            // rebuild the trail
            let mut trail = Vec::new();
            let mut cur = s;
            while let Some((Some(pi), step)) = seen.get(&cur).cloned() {
                trail.push(step as usize);
                cur = order[pi as usize].clone();
            }
            trail.reverse();
            return SearchResult { states: order.len() as u64, transitions, deadlock_trail: Some(trail), capped };
        }
        for p in sys.enabled(&s) {
            transitions += 1;
            let n = sys.step(&s, p);
            if !seen.contains_key(&n) {
                if order.len() >= max_states {
                    capped = true;
                    continue;
                }
                seen.insert(n.clone(), (Some(i as u32), p as u16));
                order.push(n);
            }
        }
        i += 1;
    }
    SearchResult { states: order.len() as u64, transitions, deadlock_trail: None, capped }
}

/// All maximal trails (sequences of process steps) of the model, up to `cap` trails.
pub fn maximal_trails(sys: &System, cap: usize) -> Vec<Vec<usize>> {
    let mut out = Vec::new();
    fn rec(sys: &System, s: &State, cur: &mut Vec<usize>, out: &mut Vec<Vec<usize>>, cap: usize) {
        if out.len() >= cap {
            return;
        }
        let en = sys.enabled(s);
        if en.is_empty() {
            out.push(cur.clone());
            return;
        }
        for p in en {
            cur.push(p);
            rec(sys, &sys.step(s, p), cur, out, cap);
            cur.pop();
        }
    }
    rec(sys, &sys.initial(), &mut Vec::new(), &mut out, cap);
    out
}

/// observation after every step: (program counters, sorted blocked set)
pub type Obs = (Vec<u16>, Vec<usize>);

pub fn model_observations(sys: &System, trail: &[usize]) -> Vec<Obs> {
    let mut s = sys.initial();
    let mut v = vec![(s.pc.clone(), sys.blocked(&s))];
    for &p in trail {
        s = sys.step(&s, p);
        v.push((s.pc.clone(), sys.blocked(&s)));
    }
    v
}

// ------------------------------------------------------------------------------------------
// conformance: the same programs on real tokio primitives under the controlled scheduler

enum RealLock {
    Rw(tokio::sync::RwLock<()>),
    Mx(tokio::sync::Mutex<()>),
}
enum Guard {
    R(tokio::sync::OwnedRwLockReadGuard<()>),
    W(tokio::sync::OwnedRwLockWriteGuard<()>),
    M(tokio::sync::OwnedMutexGuard<()>),
}

struct Shared {
    rw: Vec<Option<Arc<tokio::sync::RwLock<()>>>>,
    mx: Vec<Option<Arc<tokio::sync::Mutex<()>>>>,
    progs: Vec<Vec<Op>>,
    pc: Vec<std::sync::atomic::AtomicU16>,
    task_of: std::sync::Mutex<HashMap<usize, usize>>,
}

fn interp(sh: Arc<Shared>, p: usize) -> std::pin::Pin<Box<dyn std::future::Future<Output = ()> + Send>> {
    Box::pin(async move {
        if let Some(t) = tokio::verif::current_task() {
            sh.task_of.lock().unwrap().insert(p, t);
        }
        let mut held: Vec<(usize, Guard)> = Vec::new();
        for op in sh.progs[p].clone() {
            match op {
                Op::Acq(l, n) => {
                    let g = if let Some(rw) = &sh.rw[l] {
                        if n > 1 { Guard::W(rw.clone().write_owned().await) } else { Guard::R(rw.clone().read_owned().await) }
                    } else {
                        Guard::M(sh.mx[l].as_ref().unwrap().clone().lock_owned().await)
                    };
                    held.push((l, g));
                }
                Op::Rel(l, _) => {
                    if let Some(i) = held.iter().rposition(|(hl, _)| *hl == l) {
                        held.remove(i);
                    }
                }
                Op::Spawn(c) => {
                    tokio::spawn(interp(sh.clone(), c));
                }
            }
            sh.pc[p].fetch_add(1, std::sync::atomic::Ordering::SeqCst);
        }
        drop(held);
    })
}

/// Replays `trail` on real tokio locks; returns the observation after every step, or an error
/// if a step of the trail is not enabled in the real execution.
pub fn replay_on_tokio(sys: &System, trail: &[usize]) -> Result<Vec<Obs>, String> {
    let _ = RealLock::Mx(tokio::sync::Mutex::new(()));
    let _ = RealLock::Rw(tokio::sync::RwLock::new(()));
    let rt = tokio::runtime::Builder::new_current_thread().enable_all().start_paused(true).build().map_err(|e| e.to_string())?;
    let out = rt.block_on(async {
        tokio::verif::install(false);
        let sh = Arc::new(Shared {
            rw: sys.totals.iter().map(|t| if *t > 1 { Some(Arc::new(tokio::sync::RwLock::new(()))) } else { None }).collect(),
            mx: sys.totals.iter().map(|t| if *t > 1 { None } else { Some(Arc::new(tokio::sync::Mutex::new(()))) }).collect(),
            progs: sys.progs.clone(),
            pc: sys.progs.iter().map(|_| std::sync::atomic::AtomicU16::new(0)).collect(),
            task_of: std::sync::Mutex::new(HashMap::new()),
        });
        for &r in &sys.roots {
            tokio::spawn(interp(sh.clone(), r));
        }
        let empty: [usize; 0] = [];
        let mut ctl = crate::ctl::Controller::new(&empty, usize::MAX);
        let observe = |sh: &Shared| -> Obs {
            let pcs: Vec<u16> = sh.pc.iter().map(|a| a.load(std::sync::atomic::Ordering::SeqCst)).collect();
            let tasks = tokio::verif::tasks();
            let map = sh.task_of.lock().unwrap();
            let mut blocked: Vec<usize> = map
                .iter()
                .filter(|(_, t)| tasks.get(**t).map(|tv| tv.blocked.iter().any(|o| o.kind == tokio::verif::OpKind::Acquire) && tv.status != tokio::verif::Status::Done).unwrap_or(false))
                .map(|(p, _)| *p)
                .collect();
            blocked.sort();
            (pcs, blocked)
        };
        let mut obs = Vec::new();
        if !ctl.settle().await {
            return Err("livelock before the first step".to_string());
        }
        obs.push(observe(&sh));
        for (i, &p) in trail.iter().enumerate() {
            let t = sh.task_of.lock().unwrap().get(&p).copied();
            let Some(t) = t else { return Err(format!("step {i}: process {p} has not started in the real execution")) };
            let gate = tokio::verif::tasks().get(t).and_then(|tv| tv.gates.first().map(|g| g.0));
            let Some(gate) = gate else { return Err(format!("step {i}: process {p} is not parked at a gate in the real execution")) };
            tokio::verif::release(t, gate);
            if !ctl.settle().await {
                return Err(format!("step {i}: livelock"));
            }
            obs.push(observe(&sh));
        }
        Ok(obs)
    });
    tokio::verif::uninstall();
    out
}

/// dedup helper for instance keys
pub fn key_of(names: &[String]) -> String {
    let mut v: Vec<&String> = names.iter().collect();
    v.sort();
    v.iter().map(|s| s.as_str()).collect::<Vec<_>>().join(" ‖ ")
}

#[allow(dead_code)]
pub fn uses(_: &HashSet<u8>) {}
