//! C29 — after a reload, open files keep the editor's text; closed files reflect the disk.
//! One reload/reindex trigger (didChangeConfiguration with a changed client configuration, a
//! changed config file through the watched-files path, didSave → reindex) placed at every
//! position of every sequence of ≤ m open/change/close notifications on an on-disk document,
//! optionally with one on-disk modification (reported by the client through
//! didChangeWatchedFiles) as a scheduler event, and — when the trigger precedes the last notification —
//! also with that last notification arriving late (its arrival is a scheduler event); all schedules up
//! to the deviation bound.
use crate::ctl;
use crate::world::{self, EndState, Msg, Scenario};
use crate::{Acc, explore_scenario, finish_sched, replay_scenario};
use serde_json::json;
use vcore::*;

#[derive(Clone, Copy, Debug, PartialEq)]
enum N {
    Open,
    Change,
    Close,
}
const T_OPEN: &str = "local editor = 1\n";
const T_CHANGE: &str = "local editor = 2\n";
const DISK: &str = "local disk = 1\n";
const DISK2: &str = "local disk = 2\n";
const TRIGGERS: [&str; 3] = ["didChangeConfiguration", "configFileChanged", "didSave-reindex"];

fn notif_seqs(m: usize) -> Vec<Vec<N>> {
    let mut v = vec![vec![N::Open], vec![N::Open, N::Change], vec![N::Open, N::Close]];
    if m >= 3 {
        v.push(vec![N::Open, N::Change, N::Close]);
        v.push(vec![N::Open, N::Close, N::Open]);
    }
    v
}

fn scenario(trigger: usize, seq: &[N], pos: usize, disk_event: bool, late: bool) -> Scenario {
    let mut s = Scenario::new(&format!("{}@{pos}:{}:{}{}", TRIGGERS[trigger], seq.iter().map(|n| format!("{n:?}")).collect::<Vec<_>>().join(","), if disk_event { "disk-change" } else { "no-disk-change" }, if late { ":last-arrives-late" } else { "" }));
    // the last notification is not in the channel yet when the server starts working: when it arrives is a
    // scheduler event (the reload can be anywhere by then)
    s.late_messages = late as usize;
    s.disk = vec![("a.lua".into(), DISK.into()), ("b.lua".into(), "local b = 1\n".into()), (".emmyrc.json".into(), "{\"workspace\": {\"enableReindex\": true}}".into())];
    s.emmyrc = json!({"workspace": {"enableReindex": true}});
    s.pull_diagnostics = true;
    s.client_answers = vec![Some(json!([null]))];
    let trig: Msg = match trigger {
        0 => world::did_change_configuration(),
        1 => world::watched(&[(".emmyrc.json", 2)]),
        _ => world::did_save("a.lua"),
    };
    let mut version = 1;
    for (i, n) in seq.iter().enumerate() {
        if i == pos {
            s.messages.push(trig.clone());
        }
        version += 1;
        s.messages.push(match n {
            N::Open => world::did_open("a.lua", T_OPEN),
            N::Change => world::did_change("a.lua", version, T_CHANGE),
            N::Close => world::did_close("a.lua"),
        });
    }
    if pos >= seq.len() {
        s.messages.push(trig);
    }
    if disk_event {
        s.disk_events = vec![("a.lua".into(), Some(DISK2.into()))];
    }
    s.max_steps = 600;
    s
}

fn judge_for(seq: Vec<N>) -> impl Fn(&EndState) -> Vec<(String, String)> + Sync {
    move |e: &EndState| {
        let mut v = Vec::new();
        if let Some(d) = &e.deadlock {
            v.push(("deadlock".to_string(), d.clone()));
            return v;
        }
        for p in &e.panics {
            v.push((format!("panic:{}", panic_site(p)), p.clone()));
        }
        let mut open = false;
        let mut text = None;
        for n in &seq {
            match n {
                N::Open => {
                    open = true;
                    text = Some(T_OPEN)
                }
                N::Change => text = Some(T_CHANGE),
                N::Close => open = false,
            }
        }
        let vfs = e.vfs_texts.get("a.lua").cloned().flatten();
        let disk = e.disk_texts.get("a.lua").cloned().flatten();
        if open {
            let want = text.unwrap();
            if e.open_texts.get("a.lua").map(|s| s.as_str()) != Some(want) {
                v.push(("open-set-lost-editor-text".into(), format!("a.lua is open with {want:?} but the open set holds {:?}", e.open_texts.get("a.lua"))));
            }
            if vfs.as_deref() != Some(want) {
                v.push(("open-file-lost-editor-text".into(), format!("a.lua is open with {want:?} but the analysis holds {vfs:?} (disk: {disk:?})")));
            }
        } else {
            if e.open_texts.contains_key("a.lua") {
                v.push(("closed-file-still-open".into(), "a.lua was closed last but is still in the open set".into()));
            }
            if vfs != disk {
                v.push(("closed-file-not-disk-content".into(), format!("a.lua is closed; the analysis holds {vfs:?} but the disk holds {disk:?}")));
            }
        }
        // the untouched file must never be lost
        if e.vfs_texts.get("b.lua").cloned().flatten().as_deref() != Some("local b = 1\n") {
            v.push(("untouched-file-lost".into(), format!("b.lua: analysis holds {:?}", e.vfs_texts.get("b.lua"))));
        }
        v
    }
}

fn all(m: usize) -> Vec<(Scenario, Vec<N>)> {
    let mut out = Vec::new();
    for disk_event in [false, true] {
        for seq in notif_seqs(m) {
            for trigger in 0..3 {
                for pos in 0..=seq.len() {
                    // a save of a document that is not open at that point is not protocol-legal
                    if trigger == 2 {
                        let open_at = seq[..pos.min(seq.len())].iter().fold(false, |o, n| match n {
                            N::Open => true,
                            N::Close => false,
                            _ => o,
                        });
                        if !open_at {
                            continue;
                        }
                    }
                    out.push((scenario(trigger, &seq, pos, disk_event, false), seq.clone()));
                    if pos < seq.len() {
                        out.push((scenario(trigger, &seq, pos, disk_event, true), seq.clone()));
                    }
                }
            }
        }
    }
    out
}

pub fn run(args: &Args) -> ! {
    if args.replay.is_some() {
        let a = all(3).into_iter().map(|(s, seq)| (s, Box::new(judge_for(seq)) as Box<dyn Fn(&EndState) -> Vec<(String, String)> + Sync>)).collect();
        replay_scenario(args, "C29", a);
    }
    let dl = args.deadline();
    let (m, bound) = args.tier.pick((2usize, 2usize), (3, 3));
    let bound = args.extra_usize("bound").unwrap_or(bound);
    let mut rep = Report::new("C29", "model_checking");
    let acc = Acc::new();
    let mut tot = ctl::ExploreStats::default();
    let scns = all(m);
    let mut run_n = 0;
    let mut complete = true;
    // iterate the bound: every scenario with ≤1 preemption first, then with the full bound
    let mut bound_completed = 0usize;
    let bounds: Vec<usize> = if bound > 1 { vec![1, bound] } else { vec![bound] };
    'b: for b in bounds {
        run_n = 0;
        for (scn, seq) in &scns {
            if dl.expired() {
                complete = false;
                break 'b;
            }
            run_n += 1;
            let judge = judge_for(seq.clone());
            let st = explore_scenario(args, &dl, &acc, scn, b, args.tier.pick(20_000, 400_000), &judge, "editor-text-kept");
            tot.add(&st);
        }
        bound_completed = b;
    }
    rep.rule = format!(
        "{} scenarios ({run_n} run) = reload trigger {:?} at every position of every sequence of ≤{m} open/change/close notifications on an on-disk document × {{no disk change, one on-disk modification reported through didChangeWatchedFiles as a scheduler event}} × {{all messages queued at once, last notification arriving as a scheduler event (when the trigger precedes it)}}; debounce timers and the client's configuration answer are scheduler events; every schedule with ≤{bound} preemptions modulo happens-before state matching; oracle at quiescence: open ⇒ open set and analysis hold the latest editor text; closed ⇒ analysis holds the disk content; the untouched file is still analysed. non-trivial = more than one decision",
        scns.len(),
        TRIGGERS
    );
    rep.bounds = json!({"max_notifications": m, "preemption_bound": bound, "scenarios_total": scns.len(), "scenarios_run_at_last_bound": run_n, "preemption_bound_completed_for_all_scenarios": bound_completed, "wall_cap_hit": dl.was_hit()});
    finish_sched(args, rep, acc, &tot, complete)
}
