//! C27 — document notifications take effect in message order.
//! Every protocol-legal sequence of ≤ m notifications over {open, change×2, close, save} on an
//! on-disk and a not-on-disk document, fed to the real server loop; all schedules up to the
//! preemption bound; at quiescence the open set and the analysed text must be the ones the
//! message order dictates.
use crate::ctl;
use crate::world::{self, EndState, Scenario};
use crate::{Acc, explore_scenario, finish_sched, replay_scenario};
use serde_json::json;
use vcore::*;

#[derive(Clone, Copy, Debug, PartialEq)]
enum N {
    Open(u8),
    Change(u8),
    Close,
    Save,
}

const TEXTS: [&str; 4] = ["local a = 0\n", "local a = 1\n", "local a = 2\n", "local a = 3\n"];
const DISK_TEXT: &str = "local a = 'disk'\n";

fn legal_sequences(m: usize) -> Vec<Vec<N>> {
    let mut out = Vec::new();
    fn rec(cur: &mut Vec<N>, open: bool, m: usize, out: &mut Vec<Vec<N>>) {
        if !cur.is_empty() {
            out.push(cur.clone());
        }
        if cur.len() == m {
            return;
        }
        let nexts: Vec<N> = if open { vec![N::Change(2), N::Change(3), N::Close, N::Save] } else { vec![N::Open(1)] };
        for n in nexts {
            // do not repeat the same change text twice in a row (indistinguishable)
            if let (Some(N::Change(a)), N::Change(b)) = (cur.last(), n) {
                if *a == b {
                    continue;
                }
            }
            cur.push(n);
            rec(cur, !matches!(n, N::Close) && (open || matches!(n, N::Open(_))), m, out);
            cur.pop();
        }
    }
    rec(&mut Vec::new(), false, m, &mut out);
    out
}

fn scenario(seq: &[N], on_disk: bool, pull: bool, late: bool) -> Scenario {
    let rel = if on_disk { "a.lua" } else { "n.lua" };
    let mut s = Scenario::new(&format!("{}:{}:{}{}", if on_disk { "disk" } else { "nodisk" }, if pull { "pull" } else { "push" }, seq.iter().map(|n| format!("{n:?}")).collect::<Vec<_>>().join(","), if late { ":last-arrives-late" } else { "" }));
    s.late_messages = late as usize;
    s.disk = vec![("a.lua".into(), DISK_TEXT.into()), ("b.lua".into(), "local b = 1\n".into())];
    s.pull_diagnostics = pull;
    let mut version = 1;
    for n in seq {
        version += 1;
        s.messages.push(match n {
            N::Open(t) => world::did_open(rel, TEXTS[*t as usize]),
            N::Change(t) => world::did_change(rel, version, TEXTS[*t as usize]),
            N::Close => world::did_close(rel),
            N::Save => world::did_save(rel),
        });
    }
    s
}

/// (expected open?, expected text) by message order
fn expected(seq: &[N]) -> (bool, Option<&'static str>) {
    let mut open = false;
    let mut text = None;
    for n in seq {
        match n {
            N::Open(t) | N::Change(t) => {
                open = true;
                text = Some(TEXTS[*t as usize]);
            }
            N::Close => open = false,
            N::Save => {}
        }
    }
    (open, text)
}

fn judge_for(seq: Vec<N>, on_disk: bool) -> impl Fn(&EndState) -> Vec<(String, String)> {
    move |e: &EndState| {
        let rel = if on_disk { "a.lua" } else { "n.lua" };
        let mut v = Vec::new();
        if let Some(d) = &e.deadlock {
            v.push(("deadlock".to_string(), d.clone()));
            return v;
        }
        if e.trace.horizon_hit || e.trace.livelock || e.trace.divergence.is_some() {
            return v; // not a verdict
        }
        for p in &e.panics {
            v.push((format!("panic:{}", panic_site(p)), p.clone()));
        }
        let (open, text) = expected(&seq);
        let is_open = e.open_texts.get(rel);
        let vfs = e.vfs_texts.get(rel).cloned().flatten();
        if open {
            let want = text.unwrap();
            match is_open {
                None => v.push(("open-doc-not-open".into(), format!("{rel} should be open with {want:?} but is not in the open set"))),
                Some(t) if t != want => v.push(("open-set-stale-text".into(), format!("{rel}: open set holds {t:?}, last notification in message order gave {want:?}"))),
                _ => {}
            }
            if vfs.as_deref() != Some(want) {
                v.push(("analysis-stale-text".into(), format!("{rel}: analysis holds {vfs:?}, last notification in message order gave {want:?}")));
            }
        } else {
            if is_open.is_some() {
                v.push(("closed-doc-still-open".into(), format!("{rel} was closed last but is still in the open set with {:?}", is_open.unwrap())));
            }
            if !on_disk && vfs.is_some() {
                v.push(("closed-nondisk-doc-still-analysed".into(), format!("{rel} is closed and not on disk but the analysis still holds {vfs:?}")));
            }
        }
        v
    }
}

pub fn run(args: &Args) -> ! {
    if args.replay.is_some() {
        let mut all: Vec<(Scenario, Box<dyn Fn(&EndState) -> Vec<(String, String)> + Sync>)> = Vec::new();
        for seq in legal_sequences(4) {
            for on_disk in [true, false] {
                for pull in [true, false] {
                    for late in [false, true] {
                        all.push((scenario(&seq, on_disk, pull, late), Box::new(judge_for(seq.clone(), on_disk))));
                    }
                }
            }
        }
        replay_scenario(args, "C27", all);
    }
    let dl = args.deadline();
    let (m, bound, pulls) = args.tier.pick((3usize, 2usize, vec![false]), (4, 3, vec![false, true]));
    let bound = args.extra_usize("bound").unwrap_or(bound);
    let mut rep = Report::new("C27", "model_checking");
    let acc = Acc::new();
    let mut tot = ctl::ExploreStats::default();
    let mut scenarios = 0u64;
    let mut complete = true;
    let seqs = legal_sequences(m);
    'outer: for seq in &seqs {
        for on_disk in [true, false] {
            for &pull in &pulls {
                for late in [false, true] {
                    if late && seq.len() < 2 {
                        continue;
                    }
                    if dl.expired() {
                        complete = false;
                        break 'outer;
                    }
                    let scn = scenario(seq, on_disk, pull, late);
                    let judge = judge_for(seq.clone(), on_disk);
                    scenarios += 1;
                    let st = explore_scenario(args, &dl, &acc, &scn, bound, args.tier.pick(20_000, 400_000), &judge, "in-order");
                    tot.add(&st);
                }
            }
        }
    }
    rep.rule = format!(
        "every protocol-legal sequence of ≤{m} notifications over {{open, change(t2), change(t3), close, save}} on an on-disk and a not-on-disk document ({} sequences × 2 documents × {} client kinds, {scenarios} scenarios run), pre-loaded into the real server loop, and once more with the last notification arriving late as a scheduler event; every schedule of the server's tasks (gates at lock acquisition and channel receive; timers as events) with at most {bound} preemptions, modulo happens-before state matching; oracle at quiescence: open set and analysed text are those of the last notification in message order. non-trivial = execution with more than one decision; executions are distinct schedules by construction",
        seqs.len(),
        pulls.len()
    );
    rep.bounds = json!({"max_notifications": m, "preemption_bound": bound, "scenarios_total": seqs.len() * 2 * pulls.len(), "scenarios_run": scenarios, "wall_cap_hit": dl.was_hit(), "max_decisions_in_one_execution": tot.max_decisions});
    finish_sched(args, rep, acc, &tot, complete)
}
