//! C24 (schedule part) — every request gets exactly one response under cancellation races.
//! Requests of three kinds (one lock / two locks / sub-tasks) interleaved with `$/cancelRequest`
//! for the same or another id, cancel before / after the request in message order; all
//! schedules up to the preemption bound; at quiescence every request id has exactly one Response.
use crate::ctl;
use crate::world::{self, EndState, Msg, Scenario};
use crate::{Acc, explore_scenario, finish_sched, replay_scenario};
use lsp_server::Message;
use serde_json::json;
use std::collections::BTreeMap;
use vcore::*;

const DOC: &str = "local t = {}\nfunction t.f(a) return a end\nlocal s = t.f(1)\nprint(s)\n";

fn req(kind: usize, id: i32) -> Msg {
    match kind {
        0 => world::request(id, "textDocument/hover", world::doc_pos("a.lua", 2, 7)),
        1 => world::request(id, "textDocument/semanticTokens/full", world::doc_only("a.lua")),
        2 => world::request(id, "workspace/diagnostic", json!({"previousResultIds": []})),
        3 => world::request(id, "textDocument/hover", json!({"textDocument": 5})), // undeserialisable params
        _ => world::request(id, "no/such/method", json!({})),
    }
}
const KINDS: [&str; 5] = ["hover", "semanticTokens", "workspaceDiagnostic", "hover(bad params)", "unknown method"];

fn scenarios(thorough: bool) -> Vec<(Scenario, Vec<i32>)> {
    let mut out = Vec::new();
    let kinds: Vec<usize> = if thorough { vec![0, 1, 2, 3, 4] } else { vec![0, 1, 2, 3] };
    for &k in &kinds {
        // shapes: request then cancel(same); cancel(same) then request; request, cancel(other);
        // two requests, cancel first; request, cancel, cancel (double cancel)
        let shapes: Vec<(&str, Vec<Msg>, Vec<i32>)> = vec![
            ("req,cancel", vec![req(k, 1), world::cancel(1)], vec![1]),
            ("cancel,req", vec![world::cancel(1), req(k, 1)], vec![1]),
            ("req,cancel-other", vec![req(k, 1), world::cancel(2)], vec![1]),
            ("req,req,cancel-first", vec![req(k, 1), req(0, 2), world::cancel(1)], vec![1, 2]),
            ("req,cancel,cancel", vec![req(k, 1), world::cancel(1), world::cancel(1)], vec![1]),
            ("req,cancel,probe", vec![req(k, 1), world::cancel(1), req(0, 3)], vec![1, 3]),
        ];
        for (shape, msgs, ids) in shapes {
            // once with the server already initialised, once with the initialisation window still
            // open (the real loop queues requests and handles cancels/responses immediately)
            // … and, with the server initialised, once more with the last message arriving late (its arrival is
            // a scheduler event: a cancel that lands while the handler is running, waiting or answering)
            for (init_window, late) in [(false, false), (true, false), (false, true)] {
                if init_window && k > 1 {
                    continue;
                }
                let mut s = Scenario::new(&format!("{}:{shape}{}{}", KINDS[k], if init_window { ":during-init" } else { "" }, if late { ":last-arrives-late" } else { "" }));
                s.disk = vec![("a.lua".into(), DOC.into()), ("b.lua".into(), "local b = 1\n".into())];
                s.pull_diagnostics = true;
                s.init_as_event = init_window;
                s.late_messages = late as usize;
                s.messages.push(world::did_open("a.lua", DOC));
                s.messages.extend(msgs.clone());
                out.push((s, ids.clone()));
            }
        }
    }
    out
}

fn judge_for(ids: Vec<i32>) -> impl Fn(&EndState) -> Vec<(String, String)> + Sync {
    move |e: &EndState| {
        let mut v = Vec::new();
        if let Some(d) = &e.deadlock {
            v.push(("deadlock".to_string(), d.clone()));
            return v;
        }
        for p in &e.panics {
            v.push((format!("panic:{}", panic_site(p)), p.clone()));
        }
        let mut count: BTreeMap<String, (usize, usize)> = BTreeMap::new();
        for s in &e.seen {
            if let Message::Response(r) = &s.msg {
                let c = count.entry(r.id.to_string()).or_insert((0, 0));
                c.0 += 1;
                if r.result.is_some() == r.error.is_some() {
                    c.1 += 1;
                }
            }
        }
        for id in &ids {
            let (n, malformed) = count.get(&id.to_string()).copied().unwrap_or((0, 0));
            if n == 0 {
                v.push(("no-response".into(), format!("request {id} never got a response")));
            } else if n > 1 {
                v.push(("duplicate-response".into(), format!("request {id} got {n} responses")));
            }
            if malformed > 0 {
                v.push(("response-neither-result-nor-error".into(), format!("request {id}: a response carries both or neither of result/error")));
            }
        }
        v
    }
}

pub fn run(args: &Args) -> ! {
    if args.replay.is_some() {
        let all = scenarios(true).into_iter().map(|(s, ids)| (s, Box::new(judge_for(ids)) as Box<dyn Fn(&EndState) -> Vec<(String, String)> + Sync>)).collect();
        replay_scenario(args, "C24", all);
    }
    let dl = args.deadline();
    let thorough = args.tier == Tier::Thorough;
    let bound = args.extra_usize("bound").unwrap_or(args.tier.pick(2, 3));
    let mut rep = Report::new("C24", "model_checking");
    let acc = Acc::new();
    let mut tot = ctl::ExploreStats::default();
    let scns = scenarios(thorough);
    let mut run_n = 0;
    let mut complete = true;
    for (scn, ids) in &scns {
        if dl.expired() {
            complete = false;
            break;
        }
        run_n += 1;
        let judge = judge_for(ids.clone());
        let st = explore_scenario(args, &dl, &acc, scn, bound, args.tier.pick(20_000, 400_000), &judge, "one-response-each");
        tot.add(&st);
    }
    rep.rule = format!(
        "{} scenarios = request kinds {:?} × cancellation shapes (cancel same id after/before the request, cancel another id, two requests cancel first, double cancel, cancel then probe) behind one didOpen, fed to the real server loop (server initialised / initialisation window open / last message arriving late as a scheduler event); every schedule with ≤{bound} preemptions modulo happens-before state matching; oracle at quiescence: each request id has exactly one Response carrying result xor error. non-trivial = more than one decision",
        scns.len(),
        &KINDS[..if thorough { 5 } else { 4 }]
    );
    rep.bounds = json!({"preemption_bound": bound, "scenarios_total": scns.len(), "scenarios_run": run_n, "wall_cap_hit": dl.was_hit()});
    finish_sched(args, rep, acc, &tot, complete)
}
