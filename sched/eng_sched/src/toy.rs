//! Setup-time self test of the controller and explorer on a toy program whose verdicts are known:
//! two tasks taking two tokio mutexes in opposite order must deadlock under some schedule with
//! one preemption, never with zero, and a found schedule must replay identically.
use crate::ctl::{Choice, Controller, ExecTrace, explore};
use std::sync::Arc;
use tokio::sync::{Mutex, RwLock};
use tokio::verif;
use vcore::Deadline;

fn run_toy(prefix: &[usize], three_task_rw: bool) -> (ExecTrace, Option<String>) {
    let rt = tokio::runtime::Builder::new_current_thread().enable_all().start_paused(true).build().expect("runtime");
    let out = rt.block_on(async {
        verif::install(true);
        let t0 = tokio::time::Instant::now();
        if three_task_rw {
            // reader A.r→W.r ‖ reader W.r→A.w ‖ writer W.w : deadlocks only through fair queueing
            let a = Arc::new(RwLock::new(0u32));
            let w = Arc::new(RwLock::new(0u32));
            let (a1, w1) = (a.clone(), w.clone());
            tokio::spawn(async move {
                let _ga = a1.read().await;
                let _gw = w1.read().await;
            });
            let (a2, w2) = (a.clone(), w.clone());
            tokio::spawn(async move {
                let _gw = w2.read().await;
                let _ga = a2.write().await;
            });
            let w3 = w.clone();
            tokio::spawn(async move {
                let _gw = w3.write().await;
            });
        } else {
            let a = Arc::new(Mutex::new(0u32));
            let b = Arc::new(Mutex::new(0u32));
            let (a1, b1) = (a.clone(), b.clone());
            tokio::spawn(async move {
                let _ga = a1.lock().await;
                let _gb = b1.lock().await;
            });
            let (a2, b2) = (a.clone(), b.clone());
            tokio::spawn(async move {
                let _gb = b2.lock().await;
                let _ga = a2.lock().await;
            });
        }
        let mut ctl = Controller::new(prefix, 200);
        let mut deadlock = None;
        loop {
            if !ctl.settle().await {
                break;
            }
            let names = verif::object_names();
            let (en, running) = ctl.enabled(&[]);
            if en.is_empty() {
                let stuck: Vec<String> = verif::tasks().iter().filter(|t| t.status != verif::Status::Done).map(|t| format!("t{} blocked {:?} holding {:?}", t.task, t.blocked, t.held)).collect();
                if !stuck.is_empty() {
                    deadlock = Some(stuck.join("; "));
                }
                break;
            }
            let Some(ch) = ctl.decide(&en, running, &names, 0) else { break };
            match ch {
                Choice::Gate { task, gate, .. } => {
                    verif::release(task, gate);
                }
                Choice::Timer { deadline_ms } => {
                    let now = tokio::time::Instant::now().duration_since(t0).as_millis() as u64;
                    tokio::time::advance(std::time::Duration::from_millis(deadline_ms.saturating_sub(now) + 1)).await;
                }
                _ => {}
            }
        }
        (ctl.trace, deadlock)
    });
    verif::uninstall();
    out
}

pub fn selftest() -> Result<String, String> {
    let dl = Deadline::after_secs(30.0);
    let mut report = Vec::new();
    for (name, rw, min_bound) in [("two mutexes in opposite order", false, 1usize), ("A.r→W.r ‖ W.r→A.w ‖ W.w (fair queue)", true, 1)] {
        for bound in 0..=2usize {
            let found = std::sync::Mutex::new(Vec::<Vec<usize>>::new());
            let st = explore(bound, 4, &dl, 100_000, true, |p| run_toy(p, rw), |_p, tr, d: Option<String>| {
                if d.is_some() {
                    found.lock().unwrap().push(tr.points.iter().map(|p| p.chosen).collect());
                }
            });
            let found = found.into_inner().unwrap();
            report.push(format!("{name}: bound {bound}: {} executions, {} states, {} deadlocking", st.executions, st.states, found.len()));
            if bound < min_bound && !found.is_empty() {
                return Err(format!("{name}: deadlock reported with {bound} preemptions — the default schedule runs each task to completion, this cannot be"));
            }
            if bound >= 2 && found.is_empty() {
                return Err(format!("{name}: no deadlock found up to bound {bound}"));
            }
            if let Some(sched) = found.first() {
                let (t1, d1) = run_toy(sched, rw);
                let (t2, d2) = run_toy(sched, rw);
                let l1: Vec<&String> = t1.points.iter().map(|p| &p.label).collect();
                let l2: Vec<&String> = t2.points.iter().map(|p| &p.label).collect();
                if d1.is_none() || d1 != d2 || l1 != l2 || t1.divergence.is_some() {
                    return Err(format!("{name}: schedule {sched:?} does not replay identically"));
                }
            }
        }
    }
    Ok(report.join("\n"))
}
