//! Controller (one execution under a fixed choice prefix) and the preemption-bounded explorer
//! that enumerates choice sequences, with happens-before state matching.
use serde_json::{Value, json};
use std::collections::{HashMap, VecDeque};
use std::sync::atomic::{AtomicBool, AtomicU64, Ordering};
use std::sync::{Condvar, Mutex};
use tokio::verif::{self, Ev, Op, OpKind, Status};
use vcore::Deadline;

/// One schedulable event at a decision point.
#[derive(Clone, Debug, PartialEq, Eq)]
pub enum Choice {
    /// release gate `gate` of logical task `task`
    Gate { task: usize, gate: usize, op: Op },
    /// advance the paused clock to the earliest registered deadline
    Timer { deadline_ms: u64 },
    /// the client answers the outstanding server→client request `id` (answer index into the menu)
    ClientAnswer { id: String, answer: usize },
    /// the harness performs the next on-disk modification of the scenario
    Disk { index: usize },
    /// the client sends its next message (scenarios that hold back their last messages: the moment a
    /// message arrives is the environment's choice, not "everything is already in the channel")
    ClientMsg { index: usize },
    /// the server's initialisation completes (only in scenarios that keep the initialisation
    /// window open: messages arriving before it are queued by the real server loop)
    InitDone,
}

impl Choice {
    pub fn label(&self, names: &HashMap<usize, String>) -> String {
        match self {
            Choice::Gate { task, op, .. } => {
                let obj = names.get(&op.obj).cloned().unwrap_or_else(|| format!("o{}", op.obj));
                match op.kind {
                    OpKind::Start => format!("t{task}:start"),
                    OpKind::Acquire => format!("t{task}:acq({obj},{})", if op.n > 1 { "w" } else { "1" }),
                    OpKind::Recv => format!("t{task}:recv({obj})"),
                    k => format!("t{task}:{k:?}({obj})"),
                }
            }
            Choice::Timer { deadline_ms } => format!("timer@{deadline_ms}"),
            Choice::ClientAnswer { id, answer } => format!("client:{id}#{answer}"),
            Choice::Disk { index } => format!("disk#{index}"),
            Choice::ClientMsg { index } => format!("client-msg#{index}"),
            Choice::InitDone => "init-done".to_string(),
        }
    }
    fn actor(&self) -> Option<usize> {
        match self {
            Choice::Gate { task, .. } => Some(*task),
            _ => None,
        }
    }
}

/// What one decision point looked like (needed by the explorer to generate alternatives).
#[derive(Clone, Debug)]
pub struct Point {
    pub n_enabled: usize,
    /// index 0 continues the previously running task (if it is still enabled)
    pub running_still_enabled: bool,
    pub chosen: usize,
    /// index of the first environment event (timer, client answer, disk change, end of
    /// initialisation) in the enabled list; task gates come before it
    pub env_from: usize,
    pub label: String,
    /// happens-before hash of the state in which the decision was taken
    pub key: u64,
}

#[derive(Clone, Debug, Default)]
pub struct ExecTrace {
    pub points: Vec<Point>,
    pub horizon_hit: bool,
    pub livelock: bool,
    pub divergence: Option<String>,
}

// ------------------------------------------------------------------------------------------
// happens-before hashing

fn mix(a: u64, b: u64) -> u64 {
    // splitmix-style
    let mut x = a ^ b.wrapping_mul(0x9E3779B97F4A7C15).rotate_left(31);
    x = (x ^ (x >> 30)).wrapping_mul(0xBF58476D1CE4E5B9);
    x = (x ^ (x >> 27)).wrapping_mul(0x94D049BB133111EB);
    x ^ (x >> 31)
}
fn mix3(a: u64, b: u64, c: u64) -> u64 {
    mix(mix(a, b), c)
}

/// Canonical (interleaving-independent) summary of the partial order of events executed so
/// far: every task and every synchronisation object carries a hash chain; an event of task t on
/// object o replaces both by hash(H_t, H_o, event). Two executions whose events differ only in
/// the order of independent events (different tasks, different objects) end with the same
/// multiset of chains. All operations on the same object are treated as dependent (readers
/// too: tokio's fair queue makes their order observable). Environment events (timer, client
/// answer, disk change) are dependent with everything.
#[derive(Default)]
pub struct Hb {
    task: HashMap<usize, u64>,
    obj: HashMap<usize, u64>,
    names: HashMap<usize, String>,
    epoch: u64,
    processed: usize,
}

impl Hb {
    fn obj_h(&mut self, o: usize, first_user: u64) -> u64 {
        if let Some(h) = self.obj.get(&o) {
            return *h;
        }
        let h = match self.names.get(&o) {
            Some(n) => mix(0x6f626a, vcore::fnv(n.as_bytes())),
            None => mix(first_user, 0x6e6577),
        };
        self.obj.insert(o, h);
        h
    }
    fn task_h(&mut self, t: usize) -> u64 {
        *self.task.entry(t).or_insert(mix(self.epoch, 0x726f6f74))
    }
    fn on_obj(&mut self, t: Option<usize>, o: usize, tag: u64) {
        let ht = t.map(|t| self.task_h(t)).unwrap_or(self.epoch);
        let ho = self.obj_h(o, ht);
        let h = mix3(ht, ho, tag);
        if let Some(t) = t {
            self.task.insert(t, h);
        }
        self.obj.insert(o, h);
    }
    pub fn absorb(&mut self) {
        self.names = verif::object_names();
        let evs = verif::trace_from(self.processed);
        self.processed += evs.len();
        for e in evs {
            match e {
                Ev::Spawn { parent, task } => {
                    let hp = parent.map(|p| self.task_h(p)).unwrap_or(self.epoch);
                    self.task.insert(task, mix(hp, 0x737061776e));
                    if let Some(p) = parent {
                        self.task.insert(p, mix(hp, 0x706172));
                    }
                }
                Ev::Gate { task, op } => {
                    let h = self.task_h(task);
                    self.task.insert(task, mix3(h, op.kind as u64 + 11, op.n as u64));
                }
                Ev::Release { task, op } => {
                    let h = self.task_h(task);
                    self.task.insert(task, mix3(h, op.kind as u64 + 29, 7));
                    if op.kind == OpKind::Recv {
                        self.on_obj(Some(task), op.obj, 0x72656376);
                    }
                }
                Ev::Acquired { task, obj, n } => self.on_obj(task, obj, mix(0x616371, n as u64)),
                Ev::Blocked { task, op } => self.on_obj(Some(task), op.obj, mix(0x626c6b, op.kind as u64)),
                Ev::Freed { task, obj, n } => self.on_obj(task, obj, mix(0x667265, n as u64)),
                Ev::Done { task } | Ev::Panicked { task } => {
                    let h = self.task_h(task);
                    self.task.insert(task, mix(h, 0x646f6e65));
                }
                Ev::TimerFired { deadline_ms } => self.env(mix(0x74696d, deadline_ms)),
            }
        }
    }
    /// an environment event: ordered after everything so far and before everything later
    pub fn env(&mut self, tag: u64) {
        let mut all: Vec<u64> = self.task.values().copied().chain(self.obj.values().copied()).collect();
        all.sort_unstable();
        let mut e = mix(self.epoch, tag);
        for h in all {
            e = mix(e, h);
        }
        self.epoch = e;
        for h in self.task.values_mut() {
            *h = mix(*h, e);
        }
        for h in self.obj.values_mut() {
            *h = mix(*h, e);
        }
    }
    pub fn key(&self, last_actor: Option<usize>, extra: u64) -> u64 {
        let mut ts: Vec<u64> = self.task.values().copied().collect();
        ts.sort_unstable();
        let mut os: Vec<u64> = self.obj.values().copied().collect();
        os.sort_unstable();
        let mut k = mix(self.epoch, extra);
        for h in ts {
            k = mix(k, h);
        }
        k = mix(k, 0xffff);
        for h in os {
            k = mix(k, h);
        }
        mix(k, last_actor.and_then(|a| self.task.get(&a).copied()).unwrap_or(1))
    }
}

/// Helper owned by the scenario driver for one execution.
pub struct Controller<'a> {
    prefix: &'a [usize],
    pub trace: ExecTrace,
    last_actor: Option<usize>,
    pub max_steps: usize,
    pub hb: Hb,
}

pub const SETTLE_CAP: usize = 20_000;

impl<'a> Controller<'a> {
    pub fn new(prefix: &'a [usize], max_steps: usize) -> Self {
        Controller { prefix, trace: ExecTrace::default(), last_actor: None, max_steps, hb: Hb::default() }
    }

    /// Let everything run until no task can progress without a decision. Start gates are not
    /// decisions: a task's code before its first synchronisation operation is invisible to
    /// the others, so every new task is started eagerly.
    pub async fn settle(&mut self) -> bool {
        for _ in 0..SETTLE_CAP {
            tokio::task::yield_now().await;
            if verif::settled() {
                // one more turn so that wake-ups caused by the last poll are seen
                tokio::task::yield_now().await;
                if !verif::settled() {
                    continue;
                }
                let mut started = false;
                for t in verif::tasks() {
                    if t.status == Status::AtGate && t.gates.is_empty() && t.polls == 0 {
                        started |= verif::release(t.task, 0);
                    }
                }
                if !started {
                    return true;
                }
            }
        }
        self.trace.livelock = true;
        false
    }

    /// The enabled set in canonical order: the task that ran last first (if enabled), then
    /// ascending task index (gates in creation order), then environment events.
    pub fn enabled(&self, env: &[Choice]) -> (Vec<Choice>, bool) {
        let mut gates: Vec<Choice> = Vec::new();
        for t in verif::tasks() {
            if t.status == Status::Done {
                continue;
            }
            for (gid, op) in &t.gates {
                gates.push(Choice::Gate { task: t.task, gate: *gid, op: *op });
            }
        }
        let mut out = Vec::new();
        let mut running = false;
        if let Some(a) = self.last_actor {
            let (mine, rest): (Vec<_>, Vec<_>) = gates.into_iter().partition(|c| c.actor() == Some(a));
            running = !mine.is_empty();
            out.extend(mine);
            out.extend(rest);
        } else {
            out = gates;
        }
        // the end of initialisation is ordered before the timer: the server polls for it with a
        // 50 ms timeout, so "timer first" forever would never end (it is explored as a deviation)
        out.extend(env.iter().filter(|c| matches!(c, Choice::InitDone)).cloned());
        let mut timers = verif::timers();
        timers.dedup_by_key(|t| t.0);
        if let Some((d, _)) = timers.first() {
            out.push(Choice::Timer { deadline_ms: *d });
        }
        out.extend(env.iter().filter(|c| !matches!(c, Choice::InitDone)).cloned());
        (out, running)
    }

    /// Ask the schedule for the next choice among `enabled`. Returns None at the horizon.
    /// `extra` distinguishes environment state that the event trace does not show.
    pub fn decide(&mut self, enabled: &[Choice], running: bool, names: &HashMap<usize, String>, extra: u64) -> Option<Choice> {
        let i = self.trace.points.len();
        if i >= self.max_steps {
            self.trace.horizon_hit = true;
            return None;
        }
        self.hb.absorb();
        let key = self.hb.key(self.last_actor, extra);
        let chosen = if i < self.prefix.len() {
            let c = self.prefix[i];
            if c >= enabled.len() {
                self.trace.divergence = Some(format!("replay divergence at decision {i}: choice {c} but only {} enabled", enabled.len()));
                return None;
            }
            c
        } else {
            0
        };
        let ch = enabled[chosen].clone();
        let env_from = enabled.iter().position(|c| c.actor().is_none()).unwrap_or(enabled.len());
        self.trace.points.push(Point { n_enabled: enabled.len(), running_still_enabled: running, chosen, env_from, label: ch.label(names), key });
        self.last_actor = ch.actor();
        match &ch {
            Choice::ClientAnswer { id, answer } => self.hb.env(mix(vcore::fnv(id.as_bytes()), *answer as u64)),
            Choice::Disk { index } => self.hb.env(mix(0x6469736b, *index as u64)),
            Choice::ClientMsg { index } => self.hb.env(mix(0x6d7367, *index as u64)),
            Choice::InitDone => self.hb.env(0x696e6974),
            _ => {}
        }
        Some(ch)
    }
}

// ------------------------------------------------------------------------------------------
// explorer

#[derive(Default)]
pub struct ExploreStats {
    pub executions: u64,
    pub decisions: u64,
    pub max_decisions: usize,
    pub horizon_hits: u64,
    pub capped: bool,
    /// distinct happens-before states in which a decision was expanded
    pub states: u64,
    /// decision points not expanded because an equivalent state had been expanded already
    pub pruned: u64,
}

/// Enumerates every schedule with at most `bound` deviations (preemptions of a task that could
/// continue, or environment events landing before something that was ready), up to happens-before
/// equivalence of the states reached: a decision point whose state key was already expanded
/// with no more preemptions spent is not expanded again (its continuation on the default
/// schedule is identical, hence so are all alternatives below it). `run(prefix)` executes one
/// schedule (replaying `prefix`, then always choice 0) and returns its trace plus a
/// per-execution result that is folded by `on_exec`. With `cache == false` every schedule is
/// executed (used to cross-check the state matching on small scenarios).
pub fn explore<R: Send>(
    bound: usize,
    threads: usize,
    deadline: &Deadline,
    max_execs: u64,
    cache: bool,
    run: impl Fn(&[usize]) -> (ExecTrace, R) + Sync,
    on_exec: impl Fn(&[usize], &ExecTrace, R) + Sync,
) -> ExploreStats {
    struct Q {
        q: VecDeque<Vec<usize>>,
        active: usize,
    }
    let q = Mutex::new(Q { q: VecDeque::from([vec![]]), active: 0 });
    let cv = Condvar::new();
    let execs = AtomicU64::new(0);
    let decisions = AtomicU64::new(0);
    let maxdec = AtomicU64::new(0);
    let horizon = AtomicU64::new(0);
    let pruned = AtomicU64::new(0);
    let capped = AtomicBool::new(false);
    let seen: Mutex<HashMap<u64, usize>> = Mutex::new(HashMap::new());
    std::thread::scope(|s| {
        for _ in 0..threads.max(1) {
            s.spawn(|| {
                loop {
                    let prefix = {
                        let mut g = q.lock().unwrap();
                        loop {
                            if let Some(p) = g.q.pop_back() {
                                g.active += 1;
                                break Some(p);
                            }
                            if g.active == 0 {
                                break None;
                            }
                            g = cv.wait(g).unwrap();
                        }
                    };
                    let Some(prefix) = prefix else {
                        cv.notify_all();
                        return;
                    };
                    let stop = deadline.expired() || execs.load(Ordering::Relaxed) >= max_execs;
                    if stop {
                        capped.store(true, Ordering::Relaxed);
                        let mut g = q.lock().unwrap();
                        g.q.clear();
                        g.active -= 1;
                        cv.notify_all();
                        continue;
                    }
                    let (tr, r) = run(&prefix);
                    execs.fetch_add(1, Ordering::Relaxed);
                    decisions.fetch_add(tr.points.len() as u64, Ordering::Relaxed);
                    maxdec.fetch_max(tr.points.len() as u64, Ordering::Relaxed);
                    if tr.horizon_hit {
                        horizon.fetch_add(1, Ordering::Relaxed);
                    }
                    // children: alternatives at every decision after the prefix
                    let mut children = Vec::new();
                    if tr.divergence.is_none() {
                        let choices: Vec<usize> = tr.points.iter().map(|p| p.chosen).collect();
                        let mut cost = 0usize; // preemptions in choices[..i]
                        for (i, p) in tr.points.iter().enumerate() {
                            if i >= prefix.len() {
                                if cache {
                                    let mut g = seen.lock().unwrap();
                                    match g.get(&p.key) {
                                        Some(c) if *c <= cost => {
                                            pruned.fetch_add((tr.points.len() - i) as u64, Ordering::Relaxed);
                                            break;
                                        }
                                        _ => {
                                            g.insert(p.key, cost);
                                        }
                                    }
                                }
                                for alt in 1..p.n_enabled {
                                    // a deviation = switching away from a task that could continue, or
                                    // letting an environment event (timer, client answer, disk change,
                                    // end of initialisation) land before something that was ready
                                    let c = cost + if p.running_still_enabled || alt >= p.env_from { 1 } else { 0 };
                                    if c <= bound {
                                        let mut np = choices[..i].to_vec();
                                        np.push(alt);
                                        children.push(np);
                                    }
                                }
                            }
                            if p.chosen != 0 && (p.running_still_enabled || p.chosen >= p.env_from) {
                                cost += 1;
                            }
                        }
                    }
                    on_exec(&prefix, &tr, r);
                    let mut g = q.lock().unwrap();
                    g.q.extend(children);
                    g.active -= 1;
                    cv.notify_all();
                }
            });
        }
    });
    ExploreStats {
        executions: execs.load(Ordering::Relaxed),
        decisions: decisions.load(Ordering::Relaxed),
        max_decisions: maxdec.load(Ordering::Relaxed) as usize,
        horizon_hits: horizon.load(Ordering::Relaxed),
        capped: capped.load(Ordering::Relaxed),
        states: seen.lock().unwrap().len() as u64,
        pruned: pruned.load(Ordering::Relaxed),
    }
}

impl ExploreStats {
    pub fn add(&mut self, o: &ExploreStats) {
        self.executions += o.executions;
        self.decisions += o.decisions;
        self.max_decisions = self.max_decisions.max(o.max_decisions);
        self.horizon_hits += o.horizon_hits;
        self.capped |= o.capped;
        self.states += o.states;
        self.pruned += o.pruned;
    }
}

pub fn schedule_json(tr: &ExecTrace) -> Value {
    json!({
        "choices": tr.points.iter().map(|p| p.chosen).collect::<Vec<_>>(),
        "labels": tr.points.iter().map(|p| p.label.clone()).collect::<Vec<_>>(),
    })
}
